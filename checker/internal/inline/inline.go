// Package inline makes the analysed program independent of how its authors cut
// it into helper functions.
//
// Every rule of the checker is anchored in functions of the tree the rules were
// written against (the baseline inventory, baseline.txt). When a later change
// moves part of such a function into a NEW helper ("extract function", the most
// common behaviour-preserving edit), a rule that looks for a guard, a call or a
// store in the anchored function would no longer see it. Instead of teaching
// every rule about helpers, the loader calls Apply: every same-package static
// call to a function that is not in the baseline inventory is replaced, in the
// syntax tree that is then type-checked and turned into SSA, by the callee's
// body (source-level inlining), bottom-up, so the rules see the anchored
// function with the helper's code in place. Functions of the baseline are
// never inlined: the rules name them and analyse them as units.
//
// The transformation is semantics-preserving by construction and declines
// whenever it is not obviously so (defer, recover, goto, recursion, variadic or
// generic callees, embedded-receiver promotion, identifiers that would be
// captured by a declaration at the call site, calls that are not the first
// call evaluated in their statement, conditional contexts). The result is
// type-checked again; if that fails the package is analysed as written.
//
// Shape of an inlined call `x, err := h(a, b)`:
//
//	var _inl7_r0 T0
//	var _inl7_r1 error
//	{
//		var p T1 = a
//		var q T2 = b
//		_inl7_L:
//		for {
//			… body of h, each `return e0, e1` replaced by
//			{ _inl7_r0, _inl7_r1 = e0, e1; break _inl7_L } …
//			break _inl7_L
//		}
//	}
//	x, err := _inl7_r0, _inl7_r1
//
// The merge of the returns becomes a phi in SSA; core/thread.go keeps the
// traversals path-sensitive across it.
package inline

import (
	_ "embed"
	"fmt"
	"go/ast"
	"go/format"
	"go/token"
	"go/types"
	"golang.org/x/tools/go/ast/astutil"
	"os"
	"reflect"
	"sort"
	"strings"

	"golang.org/x/tools/go/packages"
)

//go:embed baseline.txt
var baselineTxt string

// Baseline returns the inventory of functions the rules were written against.
func Baseline() map[string]bool {
	m := map[string]bool{}
	for _, l := range strings.Split(baselineTxt, "\n") {
		l = strings.TrimSpace(l)
		if l != "" && !strings.HasPrefix(l, "#") {
			m[l] = true
		}
	}
	return m
}

// Result reports what was done, for the evidence file.
type Result struct {
	Inlined  []string // "callee into caller"
	Declined []string // "callee at caller: reason"
	Removed  []string // helper declarations dropped because every use was inlined
	Fallback []string // packages analysed as written because the transformed tree did not type-check
	// Scalarised: functions in which local struct variables were replaced by one variable per field (sroa.go)
	Scalarised []string
	// CallSites: position of the '(' of every call that was replaced by its callee's body
	CallSites map[token.Pos]string
	// DeferSites: position of calls that stand for a deferred call of an expanded helper
	// (executed at each of its return sites); rules treat them as deferred
	DeferSites map[token.Pos]bool
}

const maxCalleeStmts = 200

type funcInfo struct {
	decl     *ast.FuncDecl // in the cloned file
	obj      *types.Func
	file     *ast.File // cloned file holding decl
	ok       bool      // eligible
	why      string
	calls    map[*types.Func]bool
	topDecls []ast.Stmt // type aliases for names shadowed further down, placed at the top of the body
}

type pkgState struct {
	preDecls []ast.Stmt // declarations an expansion needs ahead of the hoisted variables
	pkg      *packages.Package
	info     *types.Info
	files    []*ast.File           // clones
	orig     map[ast.Node]ast.Node // clone node -> original node
	cand     map[*types.Func]*funcInfo
	n        int // counter for fresh names
	res      *Result
	// number of inlined call sites per callee and number of uses seen
	inlinedSites map[*types.Func]int
	changed      bool
	addImports   map[*ast.File]map[string]string // file -> name -> path
}

// Apply transforms the repository packages among pkgs (those whose path starts
// with modPath) in place: Syntax, Types and TypesInfo are replaced by the
// inlined and re-checked versions. It is a no-op when no function outside the
// baseline exists.
func Apply(pkgs []*packages.Package, modPath string, baseline map[string]bool) (*Result, error) {
	res := &Result{}
	var repo []*packages.Package
	seen := map[*packages.Package]bool{}
	var visit func(p *packages.Package)
	visit = func(p *packages.Package) {
		if seen[p] {
			return
		}
		seen[p] = true
		var imps []string
		for k := range p.Imports {
			imps = append(imps, k)
		}
		sort.Strings(imps)
		for _, k := range imps {
			visit(p.Imports[k])
		}
		if strings.HasPrefix(p.PkgPath, modPath) && p.Types != nil && p.TypesInfo != nil && len(p.Syntax) > 0 {
			repo = append(repo, p) // post-order = dependencies first
		}
	}
	sort.Slice(pkgs, func(i, j int) bool { return pkgs[i].PkgPath < pkgs[j].PkgPath })
	for _, p := range pkgs {
		visit(p)
	}
	rechecked := map[string]*types.Package{} // path -> new types.Package
	for _, p := range repo {
		st := &pkgState{pkg: p, info: p.TypesInfo, orig: map[ast.Node]ast.Node{}, cand: map[*types.Func]*funcInfo{}, res: res,
			inlinedSites: map[*types.Func]int{}, addImports: map[*ast.File]map[string]string{}}
		hasCand := false
		for _, f := range p.Syntax {
			for _, d := range f.Decls {
				if fd, ok := d.(*ast.FuncDecl); ok && fd.Body != nil {
					if obj, ok := p.TypesInfo.Defs[fd.Name].(*types.Func); ok && !baseline[obj.FullName()] {
						hasCand = true
					}
				}
			}
		}
		depChanged := false
		for path := range p.Imports {
			if rechecked[path] != nil {
				depChanged = true
			}
		}
		if !hasCand && !depChanged {
			continue
		}
		if hasCand {
			st.run(baseline)
		}
		files := p.Syntax
		if st.changed {
			files = st.files
		}
		if st.changed && os.Getenv("GFS3_DEBUG_INLINE") != "" {
			for _, f := range files {
				if strings.Contains(p.Fset.Position(f.Pos()).Filename, os.Getenv("GFS3_DEBUG_INLINE")) {
					format.Node(os.Stderr, token.NewFileSet(), f)
				}
			}
		}
		tp, info, err := recheck(p, files, rechecked)
		if err != nil && st.changed && len(st.res.Removed) > 0 {
			// retry keeping the helper declarations
			st.restoreRemoved()
			tp, info, err = recheck(p, files, rechecked)
		}
		if err != nil && st.changed {
			res.Fallback = append(res.Fallback, p.PkgPath+": "+err.Error())
			files = p.Syntax
			tp, info, err = recheck(p, files, rechecked)
		}
		if err != nil {
			return res, fmt.Errorf("re-checking %s: %v", p.PkgPath, err)
		}
		// `p := &T{...}` → `p__s := T{...}; p := &p__s` (sroa.go), on a private copy, re-checked
		if os.Getenv("GFS3_NO_SROA") == "" {
			cs := &pkgState{orig: map[ast.Node]ast.Node{}}
			var cfiles []*ast.File
			for _, f := range files {
				cf := cs.clone(f).(*ast.File)
				cf.Imports = nil
				for _, d := range cf.Decls {
					if gd, ok := d.(*ast.GenDecl); ok && gd.Tok == token.IMPORT {
						for _, sp := range gd.Specs {
							cf.Imports = append(cf.Imports, sp.(*ast.ImportSpec))
						}
					}
				}
				cfiles = append(cfiles, cf)
			}
			if n := normalizePtrLits(cfiles, info, cs.orig); n > 0 {
				if tp2, info2, err2 := recheck(p, cfiles, rechecked); err2 == nil {
					files, tp, info = cfiles, tp2, info2
				} else {
					res.Fallback = append(res.Fallback, p.PkgPath+" (pointer literal normalisation): "+err2.Error())
				}
			}
		}
		// scalar replacement of local struct variables (sroa.go), on a private copy
		if os.Getenv("GFS3_NO_SROA") == "" {
			cs := &pkgState{orig: map[ast.Node]ast.Node{}}
			var cfiles []*ast.File
			for _, f := range files {
				cf := cs.clone(f).(*ast.File)
				cf.Imports = nil
				for _, d := range cf.Decls {
					if gd, ok := d.(*ast.GenDecl); ok && gd.Tok == token.IMPORT {
						for _, sp := range gd.Specs {
							cf.Imports = append(cf.Imports, sp.(*ast.ImportSpec))
						}
					}
				}
				cfiles = append(cfiles, cf)
			}
			before := len(res.Scalarised)
			if n := sroaFiles(cfiles, info, cs.orig, tp, res); n > 0 {
				if os.Getenv("GFS3_DEBUG_SROA") != "" {
					for _, f := range cfiles {
						if strings.Contains(p.Fset.Position(f.Pos()).Filename, os.Getenv("GFS3_DEBUG_SROA")) {
							format.Node(os.Stderr, token.NewFileSet(), f)
						}
					}
				}
				tp2, info2, err2 := recheck(p, cfiles, rechecked)
				if err2 != nil {
					res.Scalarised = res.Scalarised[:before]
					res.Fallback = append(res.Fallback, p.PkgPath+" (scalar replacement): "+err2.Error())
				} else {
					files, tp, info = cfiles, tp2, info2
				}
			}
		}
		p.Syntax = files
		p.Types = tp
		p.TypesInfo = info
		rechecked[p.PkgPath] = tp
	}
	sort.Strings(res.Inlined)
	sort.Strings(res.Declined)
	return res, nil
}

func recheck(p *packages.Package, files []*ast.File, rechecked map[string]*types.Package) (*types.Package, *types.Info, error) {
	info := &types.Info{
		Types:        map[ast.Expr]types.TypeAndValue{},
		Defs:         map[*ast.Ident]types.Object{},
		Uses:         map[*ast.Ident]types.Object{},
		Implicits:    map[ast.Node]types.Object{},
		Instances:    map[*ast.Ident]types.Instance{},
		Scopes:       map[ast.Node]*types.Scope{},
		Selections:   map[*ast.SelectorExpr]*types.Selection{},
		FileVersions: map[*ast.File]string{},
	}
	var first error
	conf := types.Config{
		Importer: importerFunc(func(path string) (*types.Package, error) {
			if tp := rechecked[path]; tp != nil {
				return tp, nil
			}
			if ip := p.Imports[path]; ip != nil && ip.Types != nil {
				return ip.Types, nil
			}
			if path == "unsafe" {
				return types.Unsafe, nil
			}
			return nil, fmt.Errorf("package %q not loaded", path)
		}),
		Sizes: p.TypesSizes,
		Error: func(err error) {
			if first == nil {
				first = err
			}
		},
	}
	if p.Module != nil && p.Module.GoVersion != "" {
		conf.GoVersion = "go" + p.Module.GoVersion
	}
	tp, _ := conf.Check(p.PkgPath, p.Fset, files, info)
	if first != nil {
		return nil, nil, first
	}
	return tp, info, nil
}

type importerFunc func(path string) (*types.Package, error)

func (f importerFunc) Import(path string) (*types.Package, error) { return f(path) }

// ---------------------------------------------------------------- cloning

var (
	posType    = reflect.TypeOf(token.NoPos)
	objectType = reflect.TypeOf((*ast.Object)(nil))
	scopeType  = reflect.TypeOf((*ast.Scope)(nil))
)

// clone deep-copies an AST node; origOf maps every copied node to the node it
// was copied from (following chains, so a copy of a copy maps to the original).
func (st *pkgState) clone(n ast.Node) ast.Node {
	v := st.cloneValue(reflect.ValueOf(n))
	return v.Interface().(ast.Node)
}

func (st *pkgState) cloneValue(v reflect.Value) reflect.Value {
	switch v.Kind() {
	case reflect.Ptr:
		if v.IsNil() {
			return v
		}
		if v.Type() == objectType || v.Type() == scopeType {
			return reflect.Zero(v.Type())
		}
		nv := reflect.New(v.Type().Elem())
		src := v.Elem()
		dst := nv.Elem()
		for i := 0; i < src.NumField(); i++ {
			if !dst.Field(i).CanSet() {
				continue
			}
			dst.Field(i).Set(st.cloneValue(src.Field(i)))
		}
		if on, ok := v.Interface().(ast.Node); ok {
			root := on
			if o, ok := st.orig[on]; ok {
				root = o
			}
			st.orig[nv.Interface().(ast.Node)] = root
		}
		return nv
	case reflect.Interface:
		if v.IsNil() {
			return v
		}
		c := st.cloneValue(v.Elem())
		nv := reflect.New(v.Type()).Elem()
		nv.Set(c)
		return nv
	case reflect.Slice:
		if v.IsNil() {
			return v
		}
		nv := reflect.MakeSlice(v.Type(), v.Len(), v.Len())
		for i := 0; i < v.Len(); i++ {
			nv.Index(i).Set(st.cloneValue(v.Index(i)))
		}
		return nv
	case reflect.Struct:
		nv := reflect.New(v.Type()).Elem()
		for i := 0; i < v.NumField(); i++ {
			if nv.Field(i).CanSet() {
				nv.Field(i).Set(st.cloneValue(v.Field(i)))
			}
		}
		return nv
	}
	return v
}

// o returns the original node of a (possibly cloned) node.
func (st *pkgState) o(n ast.Node) ast.Node {
	if x, ok := st.orig[n]; ok {
		return x
	}
	return n
}

func (st *pkgState) useOf(id *ast.Ident) types.Object {
	if oi, ok := st.o(id).(*ast.Ident); ok {
		return st.info.Uses[oi]
	}
	return nil
}

func (st *pkgState) defOf(id *ast.Ident) types.Object {
	if oi, ok := st.o(id).(*ast.Ident); ok {
		return st.info.Defs[oi]
	}
	return nil
}

func (st *pkgState) typeOf(e ast.Expr) types.Type {
	if oe, ok := st.o(e).(ast.Expr); ok {
		if tv, ok := st.info.Types[oe]; ok {
			return tv.Type
		}
	}
	return nil
}

// ---------------------------------------------------------------- driver

func (st *pkgState) run(baseline map[string]bool) {
	p := st.pkg
	for _, f := range p.Syntax {
		cf := st.clone(f).(*ast.File)
		// File.Imports must share its specs with the import declarations
		cf.Imports = nil
		for _, d := range cf.Decls {
			if gd, ok := d.(*ast.GenDecl); ok && gd.Tok == token.IMPORT {
				for _, sp := range gd.Specs {
					cf.Imports = append(cf.Imports, sp.(*ast.ImportSpec))
				}
			}
		}
		cf.Unresolved = nil
		st.files = append(st.files, cf)
	}
	// candidates
	var all []*funcInfo
	for _, f := range st.files {
		for _, d := range f.Decls {
			fd, ok := d.(*ast.FuncDecl)
			if !ok || fd.Body == nil {
				continue
			}
			obj, _ := st.defOf(fd.Name).(*types.Func)
			if obj == nil {
				continue
			}
			fi := &funcInfo{decl: fd, obj: obj, file: f, calls: map[*types.Func]bool{}}
			all = append(all, fi)
			if baseline[obj.FullName()] {
				continue
			}
			fi.ok, fi.why = st.eligible(fd)
			st.cand[obj] = fi
		}
	}
	st.etaExpandMethodValues(all)
	st.hoistSwitchInits(all)
	// static calls among candidates (for bottom-up order and recursion)
	for _, fi := range st.cand {
		ast.Inspect(fi.decl.Body, func(n ast.Node) bool {
			if c, ok := n.(*ast.CallExpr); ok {
				if callee := st.staticCallee(c); callee != nil && st.cand[callee] != nil {
					fi.calls[callee] = true
				}
			}
			return true
		})
	}
	// recursion: a candidate that can reach itself is not inlined
	for obj, fi := range st.cand {
		seen := map[*types.Func]bool{}
		var dfs func(f *types.Func) bool
		dfs = func(f *types.Func) bool {
			for c := range st.cand[f].calls {
				if c == obj {
					return true
				}
				if !seen[c] {
					seen[c] = true
					if dfs(c) {
						return true
					}
				}
			}
			return false
		}
		if fi.ok && dfs(obj) {
			fi.ok, fi.why = false, "recursive"
		}
	}
	// bottom-up order over candidates, then everything else
	done := map[*types.Func]bool{}
	var order []*funcInfo
	var emit func(fi *funcInfo)
	emit = func(fi *funcInfo) {
		if done[fi.obj] {
			return
		}
		done[fi.obj] = true
		var cs []*types.Func
		for c := range fi.calls {
			cs = append(cs, c)
		}
		sort.Slice(cs, func(i, j int) bool { return cs[i].FullName() < cs[j].FullName() })
		for _, c := range cs {
			emit(st.cand[c])
		}
		order = append(order, fi)
	}
	var cands []*funcInfo
	for _, fi := range st.cand {
		cands = append(cands, fi)
	}
	sort.Slice(cands, func(i, j int) bool { return cands[i].obj.FullName() < cands[j].obj.FullName() })
	for _, fi := range cands {
		emit(fi)
	}
	for _, fi := range all {
		if !done[fi.obj] {
			done[fi.obj] = true
			order = append(order, fi)
		}
	}
	for _, fi := range order {
		st.transformFunc(fi)
	}
	// also function literals and initialisers at package level are left alone.
	if !st.changed {
		return
	}
	for f, m := range st.addImports {
		for name, path := range m {
			addImport(f, name, path)
		}
	}
	st.removeFullyInlined()
}

func lastElem(path string) string {
	if i := strings.LastIndex(path, "/"); i >= 0 {
		return path[i+1:]
	}
	return path
}

// staticCallee resolves a call to a function or method declared in this
// package (nil otherwise, e.g. interface methods, function values, builtins).
func (st *pkgState) staticCallee(c *ast.CallExpr) *types.Func {
	switch f := c.Fun.(type) {
	case *ast.Ident:
		if fn, ok := st.useOf(f).(*types.Func); ok && fn.Pkg() == st.pkg.Types {
			return fn
		}
	case *ast.SelectorExpr:
		if fn, ok := st.useOf(f.Sel).(*types.Func); ok && fn.Pkg() == st.pkg.Types {
			if osel, ok := st.o(f).(*ast.SelectorExpr); ok {
				if sel := st.info.Selections[osel]; sel != nil {
					if sel.Kind() != types.MethodVal || len(sel.Index()) < 1 {
						return nil
					}
					if types.IsInterface(sel.Recv()) {
						return nil
					}
					return fn
				}
			}
		}
	}
	return nil
}

func (st *pkgState) eligible(fd *ast.FuncDecl) (bool, string) {
	if fd.Type.TypeParams != nil && len(fd.Type.TypeParams.List) > 0 {
		return false, "generic"
	}
	if fd.Recv != nil {
		for _, f := range fd.Recv.List {
			t := f.Type
			if s, ok := t.(*ast.StarExpr); ok {
				t = s.X
			}
			switch t.(type) {
			case *ast.IndexExpr, *ast.IndexListExpr:
				return false, "generic receiver"
			}
		}
	}
	if fd.Name.Name == "init" || fd.Name.Name == "main" {
		return false, "init/main"
	}
	if fd.Type.Params != nil {
		for _, f := range fd.Type.Params.List {
			if _, ok := f.Type.(*ast.Ellipsis); ok {
				return false, "variadic"
			}
		}
	}
	topDefer := topLevelDefers(fd)
	bad := ""
	n := 0
	var walk func(node ast.Node, inLit bool)
	walk = func(node ast.Node, inLit bool) {
		ast.Inspect(node, func(x ast.Node) bool {
			switch y := x.(type) {
			case *ast.FuncLit:
				if x != node {
					walk(y.Body, true)
					return false
				}
			case *ast.DeferStmt:
				if !inLit && !topDefer[y] {
					bad = "defer"
				}
			case *ast.BranchStmt:
				if y.Tok == token.GOTO {
					bad = "goto"
				}
			case *ast.CallExpr:
				if id, ok := y.Fun.(*ast.Ident); ok && id.Name == "recover" {
					bad = "recover"
				}
			case ast.Stmt:
				n++
			}
			return true
		})
	}
	walk(fd.Body, false)
	if bad != "" {
		return false, bad
	}
	if n > maxCalleeStmts {
		return false, "too large"
	}
	return true, ""
}

func (st *pkgState) fileOf(fi *funcInfo) *ast.File { return fi.file }

func fileImports(f *ast.File, name, path string) bool {
	for _, im := range f.Imports {
		p := strings.Trim(im.Path.Value, "\"`")
		if p != path {
			continue
		}
		n := lastElem(p)
		if im.Name != nil {
			n = im.Name.Name
		}
		if n == name {
			return true
		}
	}
	return false
}

// ---------------------------------------------------------------- removal of fully inlined helpers

type removed struct {
	file *ast.File
	idx  int
	decl ast.Decl
}

var removedDecls = map[*pkgState][]removed{}

// removeFullyInlined drops the declaration of every unexported candidate all of
// whose uses in the original source were call sites that have been inlined, so
// that whole-package rules do not analyse the helper a second time out of
// context.
func (st *pkgState) removeFullyInlined() {
	uses := map[*types.Func]int{}
	for _, obj := range st.info.Uses {
		if fn, ok := obj.(*types.Func); ok && st.cand[fn] != nil {
			uses[fn]++
		}
	}
	removable := map[*types.Func]bool{}
	for fn, ci := range st.cand {
		if ci.ok && !fn.Exported() && st.inlinedSites[fn] > 0 && uses[fn] == st.inlinedSites[fn] {
			removable[fn] = true
		}
	}
	for _, f := range st.files {
		var keep []ast.Decl
		for i, d := range f.Decls {
			if fd, ok := d.(*ast.FuncDecl); ok {
				if obj, _ := st.defOf(fd.Name).(*types.Func); obj != nil && removable[obj] {
					removedDecls[st] = append(removedDecls[st], removed{f, i, d})
					st.res.Removed = append(st.res.Removed, obj.FullName())
					continue
				}
			}
			keep = append(keep, d)
		}
		if len(keep) != len(f.Decls) {
			f.Decls = keep
			// imports only the removed helpers used
			for _, im := range append([]*ast.ImportSpec(nil), f.Imports...) {
				path := strings.Trim(im.Path.Value, "\"`")
				name := ""
				if im.Name != nil {
					name = im.Name.Name
				}
				if name == "_" || name == "." {
					continue
				}
				eff := name
				if eff == "" {
					eff = lastElem(path)
					if ip := st.pkg.Imports[path]; ip != nil && ip.Name != "" {
						eff = ip.Name
					}
				}
				if !usesName(f, eff) {
					dropImport(f, im)
				}
			}
		}
	}
	sort.Strings(st.res.Removed)
}

func (st *pkgState) restoreRemoved() {
	rs := removedDecls[st]
	byFile := map[*ast.File][]removed{}
	for _, r := range rs {
		byFile[r.file] = append(byFile[r.file], r)
	}
	for f, list := range byFile {
		for _, r := range list {
			f.Decls = append(f.Decls, r.decl)
		}
	}
	st.res.Removed = nil
	delete(removedDecls, st)
}

// Inventory lists the full names of all functions and methods declared with a
// body in the module's packages (the format of baseline.txt).
func Inventory(pkgs []*packages.Package, modPath string) []string {
	var out []string
	packages.Visit(pkgs, nil, func(p *packages.Package) {
		if !strings.HasPrefix(p.PkgPath, modPath) || p.TypesInfo == nil {
			return
		}
		for _, f := range p.Syntax {
			for _, d := range f.Decls {
				if fd, ok := d.(*ast.FuncDecl); ok && fd.Body != nil {
					if obj, ok := p.TypesInfo.Defs[fd.Name].(*types.Func); ok {
						out = append(out, obj.FullName())
					}
				}
			}
		}
	})
	sort.Strings(out)
	return out
}

// usesName reports whether the identifier name occurs as the operand of a
// selector anywhere in f (a package-qualified reference, syntactically).
func usesName(f *ast.File, name string) bool {
	used := false
	ast.Inspect(f, func(n ast.Node) bool {
		if se, ok := n.(*ast.SelectorExpr); ok {
			if id, ok := se.X.(*ast.Ident); ok && id.Name == name {
				used = true
			}
		}
		return !used
	})
	return used
}

// addImport and dropImport edit the import declarations of a (cloned) file
// without touching the shared FileSet (astutil's versions merge lines of the
// token.File, which would shift the line numbers of every position in it).
func addImport(f *ast.File, name, path string) {
	spec := &ast.ImportSpec{Path: &ast.BasicLit{Kind: token.STRING, Value: `"` + path + `"`}}
	if name != lastElem(path) {
		spec.Name = &ast.Ident{Name: name}
	}
	for _, d := range f.Decls {
		if gd, ok := d.(*ast.GenDecl); ok && gd.Tok == token.IMPORT {
			spec.Path.ValuePos = gd.Pos()
			if spec.Name != nil {
				spec.Name.NamePos = gd.Pos()
			}
			if !gd.Lparen.IsValid() {
				gd.Lparen = gd.Pos()
				gd.Rparen = gd.End()
			}
			gd.Specs = append(gd.Specs, spec)
			f.Imports = append(f.Imports, spec)
			return
		}
	}
	gd := &ast.GenDecl{TokPos: f.Name.End(), Tok: token.IMPORT, Specs: []ast.Spec{spec}}
	spec.Path.ValuePos = f.Name.End()
	f.Decls = append([]ast.Decl{gd}, f.Decls...)
	f.Imports = append(f.Imports, spec)
}

func dropImport(f *ast.File, im *ast.ImportSpec) {
	for i, d := range f.Decls {
		gd, ok := d.(*ast.GenDecl)
		if !ok || gd.Tok != token.IMPORT {
			continue
		}
		var keep []ast.Spec
		for _, sp := range gd.Specs {
			if sp != ast.Spec(im) {
				keep = append(keep, sp)
			}
		}
		if len(keep) != len(gd.Specs) {
			gd.Specs = keep
			if len(keep) == 0 {
				f.Decls = append(f.Decls[:i:i], f.Decls[i+1:]...)
			}
			break
		}
	}
	var ims []*ast.ImportSpec
	for _, x := range f.Imports {
		if x != im {
			ims = append(ims, x)
		}
	}
	f.Imports = ims
}

// topLevelDefers returns the defer statements of fd that the inliner can model:
// direct children of the body, preceded only by statements that cannot return,
// deferring a plain call whose function and argument expressions mention only
// identifiers that the body never assigns (so evaluating them at the return
// sites gives the same values as at the defer statement). nil if some
// top-level defer does not qualify.
func topLevelDefers(fd *ast.FuncDecl) map[*ast.DeferStmt]bool {
	out := map[*ast.DeferStmt]bool{}
	if fd.Body == nil {
		return out
	}
	// last position at which each identifier is (re)assigned or has its address taken
	assignedAt := map[string]token.Pos{}
	note := func(name string, at token.Pos) {
		if at > assignedAt[name] {
			assignedAt[name] = at
		}
	}
	ast.Inspect(fd.Body, func(n ast.Node) bool {
		switch x := n.(type) {
		case *ast.AssignStmt:
			for _, l := range x.Lhs {
				if id, ok := l.(*ast.Ident); ok {
					note(id.Name, x.Pos())
				}
			}
		case *ast.IncDecStmt:
			if id, ok := x.X.(*ast.Ident); ok {
				note(id.Name, x.Pos())
			}
		case *ast.UnaryExpr:
			if x.Op == token.AND {
				if id, ok := x.X.(*ast.Ident); ok {
					note(id.Name, token.Pos(1<<40)) // address taken: may change at any time
				}
			}
		case *ast.RangeStmt:
			for _, e := range []ast.Expr{x.Key, x.Value} {
				if id, ok := e.(*ast.Ident); ok {
					note(id.Name, x.End())
				}
			}
		}
		return true
	})
	// named results are assigned by every return
	if fd.Type.Results != nil {
		for _, f := range fd.Type.Results.List {
			for _, nm := range f.Names {
				note(nm.Name, token.Pos(1<<40))
			}
		}
	}
	mayReturn := false
	for _, s := range fd.Body.List {
		if d, ok := s.(*ast.DeferStmt); ok {
			_ = mayReturn // returns before a defer simply do not run it (handled per return site)
			if lit, isLit := d.Call.Fun.(*ast.FuncLit); isLit {
				// a deferred closure without arguments: it reads its variables when it runs,
				// which is what running it at the return sites does; it must not recover and
				// must not assign the callee's named results
				okLit := len(d.Call.Args) == 0
				named := map[string]bool{}
				if fd.Type.Results != nil {
					for _, f := range fd.Type.Results.List {
						for _, nm := range f.Names {
							named[nm.Name] = true
						}
					}
				}
				ast.Inspect(lit.Body, func(n ast.Node) bool {
					switch x := n.(type) {
					case *ast.CallExpr:
						if id, ok := x.Fun.(*ast.Ident); ok && id.Name == "recover" {
							okLit = false
						}
					case *ast.AssignStmt:
						for _, l := range x.Lhs {
							if id, ok := l.(*ast.Ident); ok && named[id.Name] {
								okLit = false
							}
						}
					case *ast.ReturnStmt:
						// returns of the closure itself are fine
					}
					return okLit
				})
				if !okLit {
					return map[*ast.DeferStmt]bool{}
				}
				out[d] = true
				continue
			}
			okExpr := true
			ast.Inspect(d.Call, func(n ast.Node) bool {
				switch x := n.(type) {
				case *ast.Ident:
					// assigned after the defer statement: the value at the return sites could differ
					if assignedAt[x.Name] > d.Pos() {
						okExpr = false
					}
				case *ast.CallExpr:
					if x != d.Call {
						okExpr = false // nested calls would be evaluated at defer time
					}
				case *ast.FuncLit, *ast.IndexExpr, *ast.StarExpr:
					okExpr = false
				}
				return okExpr
			})
			if !okExpr {
				return map[*ast.DeferStmt]bool{}
			}
			out[d] = true
			continue
		}
		ast.Inspect(s, func(n ast.Node) bool {
			switch n.(type) {
			case *ast.FuncLit:
				return false
			case *ast.ReturnStmt:
				mayReturn = true
			}
			return true
		})
	}
	return out
}

// hoistSwitchInits rewrites `switch init; tag { … }` (and the type-switch
// form) whose init statement calls a helper, and `if init; cond` whose cond does, into `{ init; switch tag { … } }`:
// the same scopes and evaluation order, but the init is now an ordinary
// statement that the expansion can work on. Labelled switches are left alone
// (a `break L` needs the label on the switch itself).
func (st *pkgState) hoistSwitchInits(all []*funcInfo) {
	for _, fi := range all {
		labelled := map[ast.Stmt]bool{}
		ast.Inspect(fi.decl.Body, func(n ast.Node) bool {
			if l, ok := n.(*ast.LabeledStmt); ok {
				labelled[l.Stmt] = true
			}
			return true
		})
		hasHelperCall := func(n ast.Node) bool {
			found := false
			ast.Inspect(n, func(m ast.Node) bool {
				if c, ok := m.(*ast.CallExpr); ok {
					if callee := st.staticCallee(c); callee != nil && st.cand[callee] != nil {
						found = true
					}
				}
				return true
			})
			return found
		}
		astutil.Apply(fi.decl.Body, nil, func(c *astutil.Cursor) bool {
			switch x := c.Node().(type) {
			case *ast.SwitchStmt:
				if x.Init != nil && !labelled[x] && hasHelperCall(x.Init) {
					init := x.Init
					x.Init = nil
					c.Replace(&ast.BlockStmt{Lbrace: x.Pos(), List: []ast.Stmt{init, x}, Rbrace: x.End()})
					st.changed = true
				}
			case *ast.IfStmt:
				// `if init; cond` with a helper call in cond: `{ init; if cond … }`
				if x.Init != nil && !labelled[x] && hasHelperCall(x.Cond) {
					if _, isElseIf := c.Parent().(*ast.IfStmt); isElseIf && c.Name() == "Else" {
						return true // an else-if arm: wrapping it in a block is fine for the grammar
					}
					init := x.Init
					x.Init = nil
					c.Replace(&ast.BlockStmt{Lbrace: x.Pos(), List: []ast.Stmt{init, x}, Rbrace: x.End()})
					st.changed = true
				}
			case *ast.TypeSwitchStmt:
				if x.Init != nil && !labelled[x] && hasHelperCall(x.Init) {
					init := x.Init
					x.Init = nil
					c.Replace(&ast.BlockStmt{Lbrace: x.Pos(), List: []ast.Stmt{init, x}, Rbrace: x.End()})
					st.changed = true
				}
			}
			return true
		})
	}
}

// neverReassigned: within body the variable is given its value once (its
// defining statement) and is not written afterwards — no other assignment to
// it, no ++/--, no address taken, no write to one of its fields or array
// elements. Writes to the elements of a slice or map variable do not count:
// the copy bound by a method value shares them.
func (st *pkgState) neverReassigned(body *ast.BlockStmt, v *types.Var) bool {
	ok := true
	root := func(e ast.Expr) (*ast.Ident, bool) {
		direct := true
		for {
			switch x := e.(type) {
			case *ast.ParenExpr:
				e = x.X
			case *ast.IndexExpr:
				e, direct = x.X, false
			case *ast.SelectorExpr:
				e, direct = x.X, false
			case *ast.StarExpr:
				e, direct = x.X, false
			case *ast.Ident:
				return x, direct
			default:
				return nil, false
			}
		}
	}
	sharedElems := false
	switch v.Type().Underlying().(type) {
	case *types.Slice, *types.Map, *types.Pointer:
		sharedElems = true
	}
	written := func(lhs ast.Expr, define bool) {
		id, direct := root(lhs)
		if id == nil || st.useOf(id) != types.Object(v) && st.defOf(id) != types.Object(v) {
			return
		}
		if direct {
			if !(define && st.defOf(id) == types.Object(v)) {
				ok = false
			}
			return
		}
		if !sharedElems {
			ok = false
		}
	}
	ast.Inspect(body, func(n ast.Node) bool {
		switch x := n.(type) {
		case *ast.AssignStmt:
			for _, l := range x.Lhs {
				written(l, x.Tok == token.DEFINE)
			}
		case *ast.IncDecStmt:
			written(x.X, false)
		case *ast.RangeStmt:
			if x.Key != nil {
				written(x.Key, x.Tok == token.DEFINE)
			}
			if x.Value != nil {
				written(x.Value, x.Tok == token.DEFINE)
			}
		case *ast.UnaryExpr:
			if x.Op == token.AND {
				if id, _ := root(x.X); id != nil && st.useOf(id) == types.Object(v) {
					ok = false
				}
			}
		}
		return true
	})
	return ok
}

// etaExpandMethodValues rewrites a method value `x.m` of a helper method (not
// in the baseline inventory) with a pointer receiver, where x is a local
// variable or parameter, into `func(p...) R { return x.m(p...) }`. With a
// pointer receiver and a variable operand the two are the same function: the
// method value binds &x (or the pointer x), the literal reads the same variable
// when called. The call inside the literal is then an ordinary helper call and
// is expanded like any other — `db.bolt.View(op.load)` becomes a transaction
// closure again.
func (st *pkgState) etaExpandMethodValues(all []*funcInfo) {
	k := 0
	for _, fi := range all {
		callFun := map[ast.Expr]bool{}
		ast.Inspect(fi.decl.Body, func(n ast.Node) bool {
			if c, ok := n.(*ast.CallExpr); ok {
				callFun[c.Fun] = true
			}
			return true
		})
		astutil.Apply(fi.decl.Body, func(c *astutil.Cursor) bool {
			se, ok := c.Node().(*ast.SelectorExpr)
			if !ok || callFun[se] {
				return true
			}
			osel, ok := st.o(se).(*ast.SelectorExpr)
			if !ok {
				return true
			}
			sel := st.info.Selections[osel]
			if sel == nil || sel.Kind() != types.MethodVal || len(sel.Index()) != 1 || types.IsInterface(sel.Recv()) {
				return true
			}
			fn, _ := sel.Obj().(*types.Func)
			ci := st.cand[fn]
			if fn == nil || ci == nil {
				return true
			}
			sig := fn.Type().(*types.Signature)
			_, ptrRecv := sig.Recv().Type().(*types.Pointer)
			x, ok := se.X.(*ast.Ident)
			if !ok {
				return true
			}
			xv, ok := st.useOf(x).(*types.Var)
			if !ok || xv.IsField() || xv.Parent() == st.pkg.Types.Scope() {
				return true
			}
			if !ptrRecv && !st.neverReassigned(fi.decl.Body, xv) {
				// a value receiver is copied when the method value is taken: the literal reads the
				// variable when called, which is the same only if the variable is not written in between
				return true
			}
			// the signature is spelled with the method declaration's own type expressions: they must mean
			// the same in this file
			okTypes := true
			ast.Inspect(ci.decl.Type, func(n ast.Node) bool {
				if q, ok := n.(*ast.SelectorExpr); ok {
					if qx, ok := q.X.(*ast.Ident); ok {
						if pn, ok := st.useOf(qx).(*types.PkgName); ok {
							if !fileImports(fi.file, qx.Name, pn.Imported().Path()) {
								okTypes = false
							}
							if sc := st.pkg.Types.Scope().Innermost(osel.Pos()); sc != nil {
								if _, found := sc.LookupParent(qx.Name, osel.Pos()); found != types.Object(pn) {
									if fpn, ok := found.(*types.PkgName); !ok || fpn.Imported().Path() != pn.Imported().Path() {
										okTypes = false
									}
								}
							}
							return false
						}
					}
				}
				id, ok := n.(*ast.Ident)
				if !ok {
					return true
				}
				switch ob := st.useOf(id).(type) {
				case *types.PkgName:
					if !fileImports(fi.file, id.Name, ob.Imported().Path()) {
						okTypes = false
					}
				case *types.TypeName:
					if ob.Parent() != st.pkg.Types.Scope() && ob.Parent() != types.Universe {
						okTypes = false
					}
					// shadowed at the use site?
					if sc := st.pkg.Types.Scope().Innermost(osel.Pos()); sc != nil {
						if _, found := sc.LookupParent(id.Name, osel.Pos()); found != types.Object(ob) {
							okTypes = false
						}
					}
				}
				return true
			})
			if !okTypes {
				return true
			}
			k++
			pos := se.Pos()
			ft := &ast.FuncType{Func: pos, Params: &ast.FieldList{Opening: pos, Closing: pos}}
			var args []ast.Expr
			i := 0
			variadic := false
			if ci.decl.Type.Params != nil {
				for _, f := range ci.decl.Type.Params.List {
					n := len(f.Names)
					if n == 0 {
						n = 1
					}
					for j := 0; j < n; j++ {
						nm := fmt.Sprintf("_mv%d_%d", k, i)
						i++
						ft.Params.List = append(ft.Params.List, &ast.Field{Names: []*ast.Ident{{NamePos: pos, Name: nm}}, Type: st.clone(f.Type).(ast.Expr)})
						args = append(args, &ast.Ident{NamePos: pos, Name: nm})
						if _, isEll := f.Type.(*ast.Ellipsis); isEll {
							variadic = true
						}
					}
				}
			}
			if ci.decl.Type.Results != nil {
				ft.Results = &ast.FieldList{Opening: pos, Closing: pos}
				for _, f := range ci.decl.Type.Results.List {
					n := len(f.Names)
					if n == 0 {
						n = 1
					}
					for j := 0; j < n; j++ {
						ft.Results.List = append(ft.Results.List, &ast.Field{Type: st.clone(f.Type).(ast.Expr)})
					}
				}
			}
			call := &ast.CallExpr{Fun: se, Lparen: pos, Args: args, Rparen: pos}
			if variadic {
				call.Ellipsis = pos
			}
			var body ast.Stmt
			if ft.Results != nil {
				body = &ast.ReturnStmt{Return: pos, Results: []ast.Expr{call}}
			} else {
				body = &ast.ExprStmt{X: call}
			}
			c.Replace(&ast.FuncLit{Type: ft, Body: &ast.BlockStmt{Lbrace: pos, List: []ast.Stmt{body}, Rbrace: pos}})
			st.changed = true
			st.res.Inlined = append(st.res.Inlined, fmt.Sprintf("method value %s wrapped in a function literal in %s", fn.FullName(), fi.obj.FullName()))
			return false
		}, nil)
	}
}
