package core

import (
	"go/token"
	"go/types"

	"golang.org/x/tools/go/ssa"
)

// E1 — control-flow queries on go/ssa basic blocks.

// InstrIndex returns the index of in inside its block (-1 if not found).
func InstrIndex(in ssa.Instruction) int {
	b := in.Block()
	if b == nil {
		return -1
	}
	for i, x := range b.Instrs {
		if x == in {
			return i
		}
	}
	return -1
}

// Dominates reports whether instruction a dominates instruction b
// (same function; a executes before b on every path reaching b).
func Dominates(a, b ssa.Instruction) bool {
	if a == nil || b == nil || a.Parent() != b.Parent() {
		return false
	}
	if a.Block() == b.Block() {
		return InstrIndex(a) < InstrIndex(b)
	}
	return BlockDominates(a.Block(), b.Block())
}

var domCache = map[[2]*ssa.BasicBlock]bool{}

// BlockDominates reports whether every FEASIBLE path from the entry to block b
// passes through block a. It extends go/ssa's dominator relation by the paths
// thread.go knows to be infeasible (e.g. the fall-through of
// `err = ErrX; if err != nil { return err }` left behind by helper expansion).
func BlockDominates(a, b *ssa.BasicBlock) bool {
	if a == nil || b == nil || a.Parent() != b.Parent() {
		return false
	}
	if a == b || a.Dominates(b) {
		return true
	}
	k := [2]*ssa.BasicBlock{a, b}
	if v, ok := domCache[k]; ok {
		return v
	}
	fn := a.Parent()
	r := reachBlocks(fn, fn.Blocks[0], map[int]bool{a.Index: true}, nil)
	live := LiveBlocks(fn)
	v := !r[b.Index] && live[b.Index]
	domCache[k] = v
	return v
}

// Edge identifies a CFG edge by block indices.
type Edge struct{ From, To int }

// reachBlocks computes the blocks reachable from start following feasible
// successor edges (see thread.go), never entering a block in blockedBlocks and
// never following an edge in blockedEdges. start itself is included unless blocked.
func reachBlocks(fn *ssa.Function, start *ssa.BasicBlock, blockedBlocks map[int]bool, blockedEdges map[Edge]bool) []bool {
	seen := make([]bool, len(fn.Blocks))
	if start == nil || blockedBlocks[start.Index] {
		return seen
	}
	w := newWalker(blockedEdges)
	w.push(nil, start)
	for {
		st, ok := w.pop()
		if !ok {
			break
		}
		seen[st.b.Index] = true
		for _, t := range succsOf(st) {
			if blockedBlocks[t.Index] {
				continue
			}
			w.pushState(st, t)
		}
	}
	return seen
}

// Reaches reports whether there is a feasible CFG path on which a executes and
// later b executes (a != b; loops are honoured).
func Reaches(a, b ssa.Instruction) bool {
	if a == nil || b == nil || a.Parent() != b.Parent() {
		return false
	}
	ab, bb := a.Block(), b.Block()
	if ab == bb && InstrIndex(a) < InstrIndex(b) {
		return true
	}
	w := newWalker(nil)
	// a's block was entered from an unknown predecessor
	for _, t := range feasibleSuccs(ab, nil) {
		w.push(ab, t)
	}
	for {
		st, ok := w.pop()
		if !ok {
			return false
		}
		if st.b == bb {
			return true
		}
		w.pushSuccs(st)
	}
}

// ReachesAvoiding reports whether some feasible path from (after) a reaches b
// without executing any instruction for which avoid returns true.
func ReachesAvoiding(a, b ssa.Instruction, avoid func(ssa.Instruction) bool) bool {
	return ReachesAvoidingEdges(a, b, avoid, nil)
}

// ReachesAvoidingEdges is ReachesAvoiding that additionally never follows a
// blocked edge.
func ReachesAvoidingEdges(a, b ssa.Instruction, avoid func(ssa.Instruction) bool, blocked map[Edge]bool) bool {
	if a == nil || b == nil || a.Parent() != b.Parent() {
		return false
	}
	// scan helper: walk block instrs from index i; returns (foundB, blocked)
	scan := func(blk *ssa.BasicBlock, from int) (bool, bool) {
		for i := from; i < len(blk.Instrs); i++ {
			in := blk.Instrs[i]
			if in == b {
				return true, false
			}
			if avoid(in) {
				return false, true
			}
		}
		return false, false
	}
	found, blk := scan(a.Block(), InstrIndex(a)+1)
	if found {
		return true
	}
	if blk {
		return false
	}
	w := newWalker(blocked)
	for _, t := range feasibleSuccs(a.Block(), nil) {
		w.push(a.Block(), t)
	}
	for {
		st, ok := w.pop()
		if !ok {
			return false
		}
		f, bl := scan(st.b, 0)
		if f {
			return true
		}
		if bl {
			continue
		}
		w.pushSuccs(st)
	}
}

// ReachableFromEntryAvoiding reports whether target can execute on some
// feasible path from the function entry on which no instruction satisfying
// avoid executed before it. It is the negation of "avoid-instructions must be
// passed through before target".
func ReachableFromEntryAvoiding(target ssa.Instruction, avoid func(ssa.Instruction) bool) bool {
	return ReachableFromEntryAvoidingEdges(target, avoid, nil)
}

// Guard is a conditional edge that every path to an instruction must take.
type Guard struct {
	If     *ssa.If
	Branch bool // true: the then-edge (Succs[0]); false: the else-edge
}

// GuardsOf returns every (If, branch) pair such that the instruction can only
// execute after that branch edge was taken: removing the edge makes the
// instruction unreachable from the function entry.
func GuardsOf(in ssa.Instruction) []Guard {
	fn := in.Parent()
	if fn == nil || len(fn.Blocks) == 0 {
		return nil
	}
	tb := in.Block()
	var out []Guard
	for _, b := range fn.Blocks {
		if len(b.Instrs) == 0 {
			continue
		}
		iff, ok := b.Instrs[len(b.Instrs)-1].(*ssa.If)
		if !ok || len(b.Succs) != 2 || b.Succs[0] == b.Succs[1] {
			continue
		}
		// the If must itself be able to precede the instruction
		for k, br := range []bool{true, false} {
			e := Edge{b.Index, b.Succs[k].Index}
			r := reachBlocks(fn, fn.Blocks[0], nil, map[Edge]bool{e: true})
			if !r[tb.Index] {
				out = append(out, Guard{iff, br})
			} else if tb == b && false {
				_ = br
			}
		}
	}
	return out
}

// GuardsOfEdge returns the guards that hold whenever the edge pred → b is
// taken: those of pred's terminator, plus pred's own branch when it ends in an If.
func GuardsOfEdge(pred, b *ssa.BasicBlock) []Guard {
	if pred == nil || len(pred.Instrs) == 0 {
		return nil
	}
	term := pred.Instrs[len(pred.Instrs)-1]
	out := append([]Guard(nil), GuardsOf(term)...)
	if iff, ok := term.(*ssa.If); ok && len(pred.Succs) == 2 && pred.Succs[0] != pred.Succs[1] {
		switch b {
		case pred.Succs[0]:
			out = append(out, Guard{iff, true})
		case pred.Succs[1]:
			out = append(out, Guard{iff, false})
		}
	}
	return out
}

// EdgeGuards is GuardsOf restricted to one If.
func GuardedBy(in ssa.Instruction, iff *ssa.If, branch bool) bool {
	for _, g := range GuardsOf(in) {
		if g.If == iff && g.Branch == branch {
			return true
		}
	}
	return false
}

// Cond describes a comparison condition in normal form.
type Cond struct {
	Op   token.Token // EQL NEQ LSS LEQ GTR GEQ, or ILLEGAL when not a comparison
	X, Y ssa.Value
	Neg  bool      // condition is wrapped in an odd number of '!'
	Raw  ssa.Value // the condition value
}

// CondOf decomposes the condition of an If (peeling '!').
func CondOf(v ssa.Value) Cond {
	c := Cond{Raw: v}
	for {
		u, ok := v.(*ssa.UnOp)
		if !ok || u.Op != token.NOT {
			break
		}
		c.Neg = !c.Neg
		v = u.X
	}
	if b, ok := v.(*ssa.BinOp); ok {
		switch b.Op {
		case token.EQL, token.NEQ, token.LSS, token.LEQ, token.GTR, token.GEQ:
			c.Op, c.X, c.Y = b.Op, b.X, b.Y
		}
	}
	if c.Op == 0 {
		c.X = v
	}
	return c
}

// IsNilConst reports whether v is the nil constant.
func IsNilConst(v ssa.Value) bool {
	c, ok := v.(*ssa.Const)
	return ok && c.Value == nil && !isBasicZeroable(c.Type())
}

func isBasicZeroable(t types.Type) bool {
	_, ok := t.Underlying().(*types.Basic)
	return ok
}

// ErrNonNilGuard reports whether guard g says "errv != nil" on its taken edge
// (errNonNil=true) or "errv == nil" (errNonNil=false) for the given value.
func ErrNilFact(g Guard, errv ssa.Value) (isNil bool, ok bool) {
	c := CondOf(g.If.Cond)
	if c.Op != token.EQL && c.Op != token.NEQ {
		return false, false
	}
	var other ssa.Value
	if sameValue(c.X, errv) {
		other = c.Y
	} else if sameValue(c.Y, errv) {
		other = c.X
	} else {
		return false, false
	}
	if !IsNilConst(other) {
		return false, false
	}
	truth := g.Branch
	if c.Neg {
		truth = !truth
	}
	// cond (X op nil) evaluates to `truth`
	if c.Op == token.EQL {
		return truth, true
	}
	return !truth, true
}

func sameValue(a, b ssa.Value) bool {
	return a == b
}

// ErrorResult returns the SSA value holding the error result of call c
// (the call itself for single-result calls, else the Extract of the error
// position), or nil when the call has no error result or it is unused.
func ErrorResult(c *ssa.Call) ssa.Value {
	sig := c.Call.Signature()
	res := sig.Results()
	if res.Len() == 0 {
		return nil
	}
	errIdx := -1
	for i := 0; i < res.Len(); i++ {
		if isErrorType(res.At(i).Type()) {
			errIdx = i
		}
	}
	if errIdx < 0 {
		return nil
	}
	if res.Len() == 1 {
		return c
	}
	for _, r := range *c.Referrers() {
		if e, ok := r.(*ssa.Extract); ok && e.Index == errIdx {
			return e
		}
	}
	return nil
}

func isErrorType(t types.Type) bool {
	n, ok := t.(*types.Named)
	return ok && n.Obj().Pkg() == nil && n.Obj().Name() == "error"
}

// IsErrorType is exported for rules.
func IsErrorType(t types.Type) bool { return isErrorType(t) }

// valueAliases returns v plus the values that merely carry it around inside
// one function: stores into a local Alloc and the loads back, and phis all of
// whose other edges are the same value. It is used to follow `err` variables
// that go/ssa spills to memory because a closure or defer captures them.
// ValueAliases is valueAliases for the rules.
func ValueAliases(v ssa.Value) map[ssa.Value]bool { return valueAliases(v) }

func valueAliases(v ssa.Value) map[ssa.Value]bool {
	out := map[ssa.Value]bool{v: true}
	work := []ssa.Value{v}
	for len(work) > 0 {
		x := work[len(work)-1]
		work = work[:len(work)-1]
		refs := x.Referrers()
		if refs == nil {
			continue
		}
		for _, r := range *refs {
			switch r := r.(type) {
			case *ssa.Store:
				if r.Val != x {
					continue
				}
				a, ok := r.Addr.(*ssa.Alloc)
				if !ok {
					continue
				}
				// loads of a that are reached from this store without an
				// intervening other store
				for _, ar := range *a.Referrers() {
					ld, ok := ar.(*ssa.UnOp)
					if !ok || ld.Op != token.MUL {
						continue
					}
					if out[ld] {
						continue
					}
					if (r.Block() == ld.Block() && InstrIndex(r) < InstrIndex(ld) || r.Block() != ld.Block()) &&
						ReachesAvoiding(r, ld, func(in ssa.Instruction) bool {
							s, ok := in.(*ssa.Store)
							return ok && s.Addr == a && s != r
						}) {
						out[ld] = true
						work = append(work, ld)
					}
				}
			case *ssa.Phi:
				// not followed: a phi merges different values
			case *ssa.ChangeInterface:
				if !out[r] {
					out[r] = true
					work = append(work, r)
				}
			case *ssa.MakeInterface:
				// not an alias
			}
		}
	}
	return out
}

// CheckedBefore reports whether the error result of call c is known to be nil
// at instruction x: some guard of x states err == nil for (an alias of) c's
// error value. For calls without an error result it degenerates to dominance.
func CheckedBefore(c *ssa.Call, x ssa.Instruction) bool {
	if c.Parent() != x.Parent() {
		return false
	}
	errv := ErrorResult(c)
	if errv == nil {
		return false
	}
	al := valueAliases(errv)
	for _, g := range GuardsOf(x) {
		for a := range al {
			if isNil, ok := ErrNilFact(g, a); ok && isNil {
				// the guard's If must come after the call
				if Dominates(c, g.If) {
					return true
				}
			}
		}
	}
	return false
}

// Returns lists the Return instructions of fn.
func Returns(fn *ssa.Function) []*ssa.Return {
	var out []*ssa.Return
	for _, b := range fn.Blocks {
		if len(b.Instrs) == 0 {
			continue
		}
		if r, ok := b.Instrs[len(b.Instrs)-1].(*ssa.Return); ok {
			out = append(out, r)
		}
	}
	return out
}

// Instrs iterates over every instruction of fn.
func Instrs(fn *ssa.Function, f func(ssa.Instruction)) {
	for _, b := range fn.Blocks {
		for _, in := range b.Instrs {
			f(in)
		}
	}
}

// InstrsDeep iterates over fn and its closures.
func InstrsDeep(fn *ssa.Function, f func(*ssa.Function, ssa.Instruction)) {
	for _, c := range Closures(fn) {
		cc := c
		Instrs(cc, func(in ssa.Instruction) { f(cc, in) })
	}
}

// ReachableFromEntryAvoidingEdges is ReachableFromEntryAvoiding with a set of
// CFG edges that must not be followed (infeasible under an assumed value).
func ReachableFromEntryAvoidingEdges(target ssa.Instruction, avoid func(ssa.Instruction) bool, blocked map[Edge]bool) bool {
	fn := target.Parent()
	if fn == nil || len(fn.Blocks) == 0 {
		return false
	}
	w := newWalker(blocked)
	w.push(nil, fn.Blocks[0])
	for {
		st, ok := w.pop()
		if !ok {
			return false
		}
		stop := false
		for _, in := range st.b.Instrs {
			if in == target {
				return true
			}
			if avoid(in) {
				stop = true
				break
			}
		}
		if stop {
			continue
		}
		w.pushSuccs(st)
	}
}

// SilentSkip explores the loop body that starts at `body` and reports whether
// the loop head block can be reached again without executing any sink
// instruction and without taking an edge accepted by allowed (a legitimate
// skip). It returns the position-bearing instruction of the offending branch.
func SilentSkip(body, head *ssa.BasicBlock, sink func(ssa.Instruction) bool, allowed func(iff *ssa.If, branch bool) bool) (bool, ssa.Instruction) {
	seen := map[[2]int]bool{}
	var last ssa.Instruction
	var walk func(b, pred *ssa.BasicBlock) bool
	walk = func(b, pred *ssa.BasicBlock) bool {
		if b == head {
			return true
		}
		k := [2]int{b.Index, -1}
		if pred != nil && threadable(b) {
			k[1] = predIndex(b, pred)
		} else {
			pred = nil
		}
		if seen[k] {
			return false
		}
		seen[k] = true
		for _, in := range b.Instrs {
			if sink(in) {
				return false
			}
		}
		if len(b.Instrs) == 0 {
			return false
		}
		term := b.Instrs[len(b.Instrs)-1]
		feas := feasibleSuccs(b, pred)
		isFeasible := func(t *ssa.BasicBlock) bool {
			for _, f := range feas {
				if f == t {
					return true
				}
			}
			return false
		}
		if iff, ok := term.(*ssa.If); ok && len(b.Succs) == 2 {
			for k, br := range []bool{true, false} {
				if allowed(iff, br) || !isFeasible(b.Succs[k]) {
					continue
				}
				if walk(b.Succs[k], b) {
					if last == nil {
						last = iff
					}
					return true
				}
			}
			return false
		}
		for _, s := range feas {
			if walk(s, b) {
				if last == nil {
					last = term
				}
				return true
			}
		}
		return false
	}
	r := walk(body, nil)
	return r, last
}

// CheckedOnPaths reports whether every path from call c to instruction x takes
// the "error is nil" edge of a test of c's error: x cannot be reached from c
// when those edges are removed. Unlike CheckedBefore it does not require c to
// dominate x (c may sit on one arm of an earlier branch).
func CheckedOnPaths(c *ssa.Call, x ssa.Instruction) bool {
	if c.Parent() != x.Parent() {
		return false
	}
	errv := ErrorResult(c)
	if errv == nil {
		return false
	}
	al := valueAliases(errv)
	blocked := map[Edge]bool{}
	fn := c.Parent()
	for _, b := range fn.Blocks {
		if len(b.Instrs) == 0 || len(b.Succs) != 2 {
			continue
		}
		iff, ok := b.Instrs[len(b.Instrs)-1].(*ssa.If)
		if !ok {
			continue
		}
		for _, br := range []bool{true, false} {
			for a := range al {
				if isNil, ok := ErrNilFact(Guard{iff, br}, a); ok && isNil {
					k := 1
					if br {
						k = 0
					}
					blocked[Edge{b.Index, b.Succs[k].Index}] = true
				}
			}
		}
	}
	if len(blocked) == 0 {
		return false
	}
	// reachability from c to x with the nil-edges removed
	cb := c.Block()
	// within c's own block after c
	for i := InstrIndex(c) + 1; i < len(cb.Instrs); i++ {
		if cb.Instrs[i] == x {
			return false
		}
	}
	w := newWalker(blocked)
	for _, t := range feasibleSuccs(cb, nil) {
		w.push(cb, t)
	}
	for {
		st, ok := w.pop()
		if !ok {
			break
		}
		if st.b == x.Block() {
			return false
		}
		w.pushSuccs(st)
	}
	return Reaches(c, x)
}

// Equality reports what a guard on an ==/!= comparison establishes on its
// taken edge: eq=true means "X == Y holds", eq=false "X != Y holds". It is
// polarity-agnostic: `if a != b { return }` and `if a == b { … }` establish
// the same fact for the code that follows / is nested.
func (g Guard) Equality() (eq bool, ok bool) {
	cd := CondOf(g.If.Cond)
	if cd.Op != token.EQL && cd.Op != token.NEQ {
		return false, false
	}
	truth := g.Branch
	if cd.Neg {
		truth = !truth
	}
	if cd.Op == token.EQL {
		return truth, true
	}
	return !truth, true
}

// Forward resolves a value that merely passes through memory the function owns:
// a load of field f of a locally allocated struct (new / composite literal) for
// which exactly one store to that field exists in the function, that store
// dominates the load, and the struct does not escape before the load (it is
// not passed to a call, stored, or captured on any path to the load). The
// stored value is returned (recursively); any other value is returned as is.
// Rules that ask "is this the parameter itself" use it so that
// `p := &T{N: n}; … p.N` still counts as n.
func Forward(v ssa.Value) ssa.Value {
	for i := 0; i < 4; i++ {
		ld, ok := v.(*ssa.UnOp)
		if !ok || ld.Op != token.MUL {
			return v
		}
		fa, ok := ld.X.(*ssa.FieldAddr)
		if !ok {
			return v
		}
		a, ok := fa.X.(*ssa.Alloc)
		if !ok || a.Referrers() == nil {
			return v
		}
		var store *ssa.Store
		n := 0
		escapes := false
		for _, ref := range *a.Referrers() {
			switch x := ref.(type) {
			case *ssa.FieldAddr:
				for _, u := range *x.Referrers() {
					switch y := u.(type) {
					case *ssa.Store:
						if y.Addr == ssa.Value(x) && x.Field == fa.Field {
							n++
							store = y
						}
					case *ssa.UnOp:
					default:
						// the field's address is taken for something else
						if x.Field == fa.Field {
							escapes = true
						}
					}
				}
			case ssa.Instruction:
				// handed to an encoder that only reads it (directly or boxed)
				if readOnlyUse(ref) {
					continue
				}
				// any other use of the struct pointer (call argument, store, closure
				// binding, interface conversion) before the load lets it escape
				if in, ok := ref.(ssa.Instruction); ok {
					if in.Block() == ld.Block() && InstrIndex(in) < InstrIndex(ld) || in.Block() != ld.Block() && Reaches(in, ld) {
						escapes = true
					}
				}
			}
		}
		if n != 1 || escapes || store == nil || !Dominates(store, ld) {
			return v
		}
		v = store.Val
	}
	return v
}

// CheckedOrGuardedBy reports whether instruction x executes only where the
// boolean result of call c was tested true (x is guarded by a condition that
// derives from c's result), e.g. `if p.Match(k, &m) && m.CommonPrefix { x }`.
func CheckedOrGuardedBy(x ssa.Instruction, c *ssa.Call) bool {
	for _, g := range GuardsOf(x) {
		v := CondOf(g.If.Cond).X
		if v == ssa.Value(c) {
			return true
		}
		if ph, ok := v.(*ssa.Phi); ok {
			for _, e := range ph.Edges {
				if e == ssa.Value(c) {
					return true
				}
			}
		}
	}
	return false
}

// readOnlyEncoders only read what they are given.
var readOnlyEncoders = map[string]bool{
	"gopkg.in/mgo.v2/bson.Marshal": true, "encoding/json.Marshal": true, "encoding/xml.Marshal": true,
	"encoding/json.MarshalIndent": true,
}

// readOnlyUse: the instruction passes the value (possibly boxed into an
// interface) to a function that only reads it.
func readOnlyUse(ref ssa.Instruction) bool {
	switch x := ref.(type) {
	case *ssa.MakeInterface:
		if x.Referrers() == nil {
			return false
		}
		for _, u := range *x.Referrers() {
			ui, ok := u.(ssa.Instruction)
			if !ok || !readOnlyUse(ui) {
				if _, isDbg := u.(*ssa.DebugRef); isDbg {
					continue
				}
				return false
			}
		}
		return true
	case ssa.CallInstruction:
		if f := x.Common().StaticCallee(); f != nil {
			return readOnlyEncoders[f.String()]
		}
	}
	return false
}
