// Package core holds the engines shared by all rules: program loading (E0),
// control-flow queries (E1), provenance slices (E2) and the report/evidence
// plumbing.
package core

import (
	"fmt"
	"go/token"
	"go/types"
	"os"
	"path/filepath"
	"sort"
	"strings"
	"time"

	"golang.org/x/tools/go/callgraph"
	"golang.org/x/tools/go/callgraph/cha"
	"golang.org/x/tools/go/callgraph/vta"
	"golang.org/x/tools/go/packages"
	"golang.org/x/tools/go/ssa"
	"golang.org/x/tools/go/ssa/ssautil"

	"gfs3check/internal/inline"
)

// ModPath is the module path of the analysed repository.
const ModPath = "github.com/johannesboyne/gofakes3"

// Short names of the product packages (the scope of every rule).
var productPkgs = map[string]string{
	ModPath:                          "gofakes3",
	ModPath + "/backend/s3mem":       "s3mem",
	ModPath + "/backend/s3bolt":      "s3bolt",
	ModPath + "/backend/s3afero":     "s3afero",
	ModPath + "/internal/goskipiter": "goskipiter",
	ModPath + "/internal/s3io":       "s3io",
	ModPath + "/cmd/gofakes3":        "cmd",
}

// Program is the resolved program: type-checked packages, SSA and call graph.
type Program struct {
	Root    string
	Fset    *token.FileSet
	Pkgs    map[string]*packages.Package // by short name
	SSA     *ssa.Program
	SSAPkgs map[string]*ssa.Package // by short name
	short   map[*types.Package]string

	funcs    map[string]*ssa.Function // "short.RelString"
	AllFuncs map[*ssa.Function]bool   // every function known to SSA
	cg       *callgraph.Graph
	chaCG    *callgraph.Graph

	fieldStores map[string][]*ssa.Store
	fieldLoads  map[string][]ssa.Value
	fieldAddrs  map[string][]*ssa.FieldAddr
	callers     map[*ssa.Function][]ssa.CallInstruction

	LoadSecs, SSASecs, CGSecs float64
	NPackagesLoaded           int
	// ExtraEnv is the extra environment the tree was loaded with (GOARCH=386,
	// GOOS=windows in the thorough platform matrix); empty for the host load.
	ExtraEnv []string
	// Inline reports which helper functions outside the baseline inventory were
	// expanded into their callers before SSA construction (internal/inline).
	Inline *inline.Result
	// PhisSimplified: phis replaced by the one value they take on feasible edges (SimplifyPhis)
	PhisSimplified int
}

// NoInline disables the helper inlining (used to produce the inventory).
var NoInline = false

// Inventory lists the functions declared in the module at root (baseline format).
func Inventory(root string) ([]string, error) {
	env := append(os.Environ(),
		"GOFLAGS=-mod=mod", "GOPROXY=off", "GOSUMDB=off", "GOWORK=off", "GOTOOLCHAIN=local")
	cfg := &packages.Config{Mode: packages.LoadAllSyntax, Dir: root, Env: env}
	pkgs, err := packages.Load(cfg, "./...")
	if err != nil {
		return nil, err
	}
	return inline.Inventory(pkgs, ModPath), nil
}

// Load type-checks and builds SSA for the working tree at root.
func Load(root string, extraEnv ...string) (*Program, error) {
	t0 := time.Now()
	env := append(os.Environ(),
		"GOFLAGS=-mod=mod", "GOPROXY=off", "GOSUMDB=off", "GOWORK=off", "GOTOOLCHAIN=local")
	env = append(env, extraEnv...)
	cfg := &packages.Config{
		Mode:  packages.LoadAllSyntax,
		Dir:   root,
		Env:   env,
		Tests: false,
	}
	pkgs, err := packages.Load(cfg, "./...")
	if err != nil {
		return nil, fmt.Errorf("packages.Load: %w", err)
	}
	if len(pkgs) == 0 {
		return nil, fmt.Errorf("no packages loaded from %s", root)
	}
	var errs []string
	packages.Visit(pkgs, nil, func(p *packages.Package) {
		if !strings.HasPrefix(p.PkgPath, ModPath) {
			return
		}
		for _, e := range p.Errors {
			errs = append(errs, e.Error())
		}
	})
	if len(errs) > 0 {
		return nil, fmt.Errorf("type errors in analysed tree: %s", strings.Join(errs, "; "))
	}
	var inl *inline.Result
	if !NoInline {
		var ierr error
		inl, ierr = inline.Apply(pkgs, ModPath, inline.Baseline())
		if ierr != nil {
			return nil, fmt.Errorf("helper inlining: %w", ierr)
		}
	}
	p := &Program{
		Inline:  inl,
		Root:    root,
		Pkgs:    map[string]*packages.Package{},
		SSAPkgs: map[string]*ssa.Package{},
		short:   map[*types.Package]string{},
		funcs:   map[string]*ssa.Function{},
	}
	p.NPackagesLoaded = len(pkgs)
	p.ExtraEnv = extraEnv
	p.Fset = pkgs[0].Fset
	p.LoadSecs = time.Since(t0).Seconds()

	t1 := time.Now()
	prog, ssaPkgs := ssautil.AllPackages(pkgs, ssa.InstantiateGenerics)
	prog.Build()
	p.SSA = prog
	for i, pk := range pkgs {
		sn, ok := productPkgs[pk.PkgPath]
		if !ok {
			continue
		}
		if ssaPkgs[i] == nil {
			return nil, fmt.Errorf("no SSA for %s", pk.PkgPath)
		}
		p.Pkgs[sn] = pk
		p.SSAPkgs[sn] = ssaPkgs[i]
		p.short[pk.Types] = sn
	}
	for path, sn := range productPkgs {
		if sn == "cmd" {
			continue
		}
		if p.Pkgs[sn] == nil {
			return nil, fmt.Errorf("product package %s not loaded", path)
		}
	}
	p.AllFuncs = ssautil.AllFunctions(prog)
	for fn := range p.AllFuncs {
		if fn.Pkg == nil {
			continue
		}
		sn, ok := p.short[fn.Pkg.Pkg]
		if !ok {
			continue
		}
		if fn.Synthetic != "" && !strings.HasPrefix(fn.Synthetic, "package initializer") {
			continue
		}
		p.funcs[sn+"."+fn.RelString(fn.Pkg.Pkg)] = fn
	}
	if os.Getenv("GFS3_NO_PHISIMP") == "" {
		p.PhisSimplified = SimplifyPhis(p.RepoFuncs())
	}
	if d := os.Getenv("GFS3_DUMP_SSA"); d != "" {
		for n, fn := range p.funcs {
			if strings.Contains(n, d) {
				fn.WriteTo(os.Stderr)
			}
		}
	}
	p.SSASecs = time.Since(t1).Seconds()
	return p, nil
}

// PkgShort returns the short product-package name of fn, or "" if fn is not a
// product function.
func (p *Program) PkgShort(fn *ssa.Function) string {
	if fn == nil {
		return ""
	}
	for fn.Parent() != nil {
		fn = fn.Parent()
	}
	if fn.Pkg == nil {
		// instantiations / wrappers: use the object's package
		if fn.Object() != nil && fn.Object().Pkg() != nil {
			return p.short[fn.Object().Pkg()]
		}
		return ""
	}
	return p.short[fn.Pkg.Pkg]
}

// IsRepo reports whether fn is a source function of a product package.
func (p *Program) IsRepo(fn *ssa.Function) bool {
	return fn != nil && fn.Blocks != nil && p.PkgShort(fn) != "" && fn.Synthetic == ""
}

// FuncName is the stable display name: "short.RelString".
func (p *Program) FuncName(fn *ssa.Function) string {
	if fn == nil {
		return "<nil>"
	}
	sn := p.PkgShort(fn)
	if sn == "" {
		return fn.String()
	}
	top := fn
	for top.Parent() != nil {
		top = top.Parent()
	}
	if top.Pkg != nil {
		return sn + "." + fn.RelString(top.Pkg.Pkg)
	}
	return sn + "." + fn.Name()
}

// Func looks up a product function by "short.RelString", e.g.
// "gofakes3.(*GoFakeS3).getObject" or "s3mem.(*bucket).put". nil if absent.
func (p *Program) Func(name string) *ssa.Function { return p.funcs[name] }

// RepoFuncs returns all product source functions (incl. closures), sorted.
func (p *Program) RepoFuncs() []*ssa.Function {
	var out []*ssa.Function
	for _, fn := range p.funcs {
		if fn.Blocks != nil && fn.Synthetic == "" {
			out = append(out, fn)
		}
	}
	sort.Slice(out, func(i, j int) bool { return p.FuncName(out[i]) < p.FuncName(out[j]) })
	return out
}

// FuncsOfPkg returns the product source functions of one package.
func (p *Program) FuncsOfPkg(short string) []*ssa.Function {
	var out []*ssa.Function
	for _, fn := range p.RepoFuncs() {
		if p.PkgShort(fn) == short {
			out = append(out, fn)
		}
	}
	return out
}

// Closures returns fn and, transitively, its anonymous functions.
func Closures(fn *ssa.Function) []*ssa.Function {
	out := []*ssa.Function{fn}
	for _, a := range fn.AnonFuncs {
		out = append(out, Closures(a)...)
	}
	return out
}

// Pos renders a position relative to the repository root.
func (p *Program) Pos(pos token.Pos) string {
	if !pos.IsValid() {
		return "?"
	}
	ps := p.Fset.Position(pos)
	rel, err := filepath.Rel(p.Root, ps.Filename)
	if err != nil {
		rel = ps.Filename
	}
	return fmt.Sprintf("%s:%d", rel, ps.Line)
}

// InstrPos finds the best position for an instruction (falls back to the
// nearest preceding instruction with a position, then to the function).
func (p *Program) InstrPos(in ssa.Instruction) string {
	if in == nil {
		return "?"
	}
	if in.Pos().IsValid() {
		return p.Pos(in.Pos())
	}
	if v, ok := in.(ssa.Value); ok {
		_ = v
	}
	b := in.Block()
	if b != nil {
		idx := -1
		for i, x := range b.Instrs {
			if x == in {
				idx = i
			}
		}
		for i := idx; i >= 0; i-- {
			if b.Instrs[i].Pos().IsValid() {
				return p.Pos(b.Instrs[i].Pos())
			}
		}
		for i := idx + 1; i < len(b.Instrs) && idx >= 0; i++ {
			if b.Instrs[i].Pos().IsValid() {
				return p.Pos(b.Instrs[i].Pos())
			}
		}
	}
	if in.Parent() != nil {
		return p.Pos(in.Parent().Pos())
	}
	return "?"
}

// CallGraph builds (once) the VTA call graph seeded by CHA.
func (p *Program) CallGraph() *callgraph.Graph {
	if p.cg != nil {
		return p.cg
	}
	t := time.Now()
	p.chaCG = cha.CallGraph(p.SSA)
	p.cg = vta.CallGraph(p.AllFuncs, p.chaCG)
	p.CGSecs = time.Since(t).Seconds()
	return p.cg
}

// CHAGraph returns the (coarser) CHA graph.
func (p *Program) CHAGraph() *callgraph.Graph {
	p.CallGraph()
	return p.chaCG
}

// NamedType finds a named type in a product package.
func (p *Program) NamedType(short, name string) *types.Named {
	pk := p.Pkgs[short]
	if pk == nil {
		return nil
	}
	o := pk.Types.Scope().Lookup(name)
	if o == nil {
		return nil
	}
	n, _ := o.Type().(*types.Named)
	return n
}

// TypeShort renders a type with product packages abbreviated.
func (p *Program) TypeShort(t types.Type) string {
	return types.TypeString(t, func(pk *types.Package) string {
		if sn, ok := p.short[pk]; ok {
			return sn
		}
		return pk.Path()
	})
}
