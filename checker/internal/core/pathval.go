package core

import (
	"fmt"
	"go/token"
	"sort"
	"strings"

	"golang.org/x/tools/go/ssa"
)

// ValuesOnPaths enumerates what value v (typically a flag merged by phis) can
// have when instruction at executes, over every feasible path that starts
// right after instruction from. Phis in the closure of v are resolved along
// the path: entering a block through its i-th predecessor gives each of its
// phis the i-th edge value (resolved in turn if it is a phi entered earlier on
// the path). A phi whose block the path has not entered keeps its own
// identity ("whatever it was before from"). Branches on a tracked flag whose
// value on the path is a constant follow only the matching arm. ok is false
// when the exploration was cut off.
func ValuesOnPaths(from, at ssa.Instruction, v ssa.Value) (vals []ssa.Value, ok bool) {
	return ValuesOnPathsAssuming(from, at, v, nil)
}

// ValuesOnPathsAssuming is ValuesOnPaths under assumed outcomes of
// comparisons / calls (as in ReachableTrackingFlags); from == nil starts at
// the function entry.
func ValuesOnPathsAssuming(from, at ssa.Instruction, v ssa.Value, assume map[ssa.Value]bool) (vals []ssa.Value, ok bool) {
	if at.Parent() == nil || len(at.Parent().Blocks) == 0 || (from != nil && from.Parent() != at.Parent()) {
		return nil, false
	}
	if assume != nil {
		old := assumed
		assumed = assume
		defer func() { assumed = old }()
	}
	closure := map[*ssa.Phi]bool{}
	var add func(x ssa.Value)
	add = func(x ssa.Value) {
		ph, isPhi := x.(*ssa.Phi)
		if !isPhi || closure[ph] {
			return
		}
		closure[ph] = true
		for _, e := range ph.Edges {
			add(e)
		}
	}
	add(v)
	for ph := range flagPhis(at.Parent()) {
		closure[ph] = true
	}
	byBlock := map[*ssa.BasicBlock][]*ssa.Phi{}
	var order []*ssa.Phi
	for ph := range closure {
		byBlock[ph.Block()] = append(byBlock[ph.Block()], ph)
		order = append(order, ph)
	}
	sort.Slice(order, func(i, j int) bool {
		if order[i].Block().Index != order[j].Block().Index {
			return order[i].Block().Index < order[j].Block().Index
		}
		return InstrIndex(order[i]) < InstrIndex(order[j])
	})
	type env map[*ssa.Phi]ssa.Value
	type facts map[ssa.Value]bool // outcomes of the branch conditions taken on the path
	resolve := func(x ssa.Value, e env) ssa.Value {
		if ph, isPhi := x.(*ssa.Phi); isPhi {
			if r, has := e[ph]; has {
				return r
			}
		}
		return x
	}
	fp := func(e env) string {
		var sb strings.Builder
		for _, ph := range order {
			if r, has := e[ph]; has {
				fmt.Fprintf(&sb, "%p=%p;", ph, r)
			}
		}
		return sb.String()
	}
	type state struct {
		b, pred *ssa.BasicBlock
		e       env
		f       facts
	}
	ffp := func(f facts) string {
		var ks []string
		for v, t := range f {
			ks = append(ks, fmt.Sprintf("%p=%v", v, t))
		}
		sort.Strings(ks)
		return strings.Join(ks, ",")
	}
	seenState := map[string]bool{}
	seenVal := map[ssa.Value]bool{}
	record := func(e env) {
		r := resolve(v, e)
		if !seenVal[r] {
			seenVal[r] = true
			vals = append(vals, r)
		}
	}
	constBool := func(x ssa.Value) (bool, bool) {
		if c, isC := x.(*ssa.Const); isC && c.Value != nil {
			switch c.Value.String() {
			case "true":
				return true, true
			case "false":
				return false, true
			}
		}
		return false, false
	}
	// truth of a branch condition under the environment, when it is a tracked flag (possibly negated)
	var curFacts facts
	var truth func(x ssa.Value, e env, d int) (bool, bool)
	truth = func(x ssa.Value, e env, d int) (bool, bool) {
		if d > 4 {
			return false, false
		}
		if u, isU := x.(*ssa.UnOp); isU && u.Op == token.NOT {
			t, known := truth(u.X, e, d+1)
			return !t, known
		}
		x = resolve(x, e)
		if u, isU := x.(*ssa.UnOp); isU && u.Op == token.NOT {
			t, known := truth(u.X, e, d+1)
			return !t, known
		}
		if t, has := assume[x]; has {
			return t, true
		}
		if t, has := curFacts[x]; has {
			return t, true
		}
		return constBool(x)
	}
	// the (un-negated, path-resolved) value a branch tests, and whether it is tested negated
	tested := func(x ssa.Value, e env) (ssa.Value, bool) {
		neg := false
		for k := 0; k < 4; k++ {
			if u, isU := x.(*ssa.UnOp); isU && u.Op == token.NOT {
				x, neg = u.X, !neg
				continue
			}
			r := resolve(x, e)
			if r == x {
				break
			}
			x = r
		}
		return x, neg
	}
	succs := func(s state) []*ssa.BasicBlock {
		curFacts = s.f
		out := feasibleSuccs(s.b, s.pred)
		if assume != nil {
			out = feasibleSuccsAssuming(s.b, s.pred)
		}
		if len(out) == 2 {
			if iff, isIf := s.b.Instrs[len(s.b.Instrs)-1].(*ssa.If); isIf {
				if t, known := truth(iff.Cond, s.e, 0); known {
					if t {
						return []*ssa.BasicBlock{s.b.Succs[0]}
					}
					return []*ssa.BasicBlock{s.b.Succs[1]}
				}
			}
		}
		return out
	}
	var work []state
	step := func(s state) {
		for _, t := range succs(s) {
			ne := env{}
			for k, x := range s.e {
				ne[k] = x
			}
			pi := predIndex(t, s.b)
			for _, ph := range byBlock[t] {
				if pi >= 0 && pi < len(ph.Edges) {
					ne[ph] = resolve(ph.Edges[pi], s.e)
				}
			}
			// what taking this edge says about the tested value; facts about values that the
			// entered block computes anew are dropped
			nf := facts{}
			for v, tv := range s.f {
				if in, isIn := v.(ssa.Instruction); isIn && in.Block() == t {
					continue
				}
				nf[v] = tv
			}
			if len(s.b.Succs) == 2 && s.b.Succs[0] != s.b.Succs[1] {
				if iff, isIf := s.b.Instrs[len(s.b.Instrs)-1].(*ssa.If); isIf {
					if cv, neg := tested(iff.Cond, s.e); cv != nil {
						if _, isC := cv.(*ssa.Const); !isC {
							nf[cv] = (t == s.b.Succs[0]) != neg
						}
					}
				}
			}
			k := fmt.Sprintf("%d|%d|%s|%s", t.Index, s.b.Index, fp(ne), ffp(nf))
			if seenState[k] {
				continue
			}
			seenState[k] = true
			work = append(work, state{t, s.b, ne, nf})
		}
	}
	var start state
	if from == nil {
		start = state{at.Parent().Blocks[0], nil, env{}, facts{}}
		if start.b == at.Block() {
			record(start.e)
		}
	} else {
		start = state{from.Block(), nil, env{}, facts{}}
		if from.Block() == at.Block() && InstrIndex(from) < InstrIndex(at) {
			record(start.e)
		}
	}
	step(start)
	for n := 0; len(work) > 0; n++ {
		if n > 50000 {
			return vals, false
		}
		s := work[len(work)-1]
		work = work[:len(work)-1]
		if s.b == at.Block() {
			record(s.e)
		}
		step(s)
	}
	return vals, true
}

// flagPhis returns the boolean phis of fn that decide a branch (directly or
// negated), with the phis they are merged from: the flags of the function.
func flagPhis(fn *ssa.Function) map[*ssa.Phi]bool {
	out := map[*ssa.Phi]bool{}
	var add func(x ssa.Value)
	add = func(x ssa.Value) {
		ph, isPhi := x.(*ssa.Phi)
		if !isPhi || out[ph] {
			return
		}
		out[ph] = true
		for _, e := range ph.Edges {
			add(e)
		}
	}
	for _, b := range fn.Blocks {
		if len(b.Instrs) == 0 {
			continue
		}
		iff, ok := b.Instrs[len(b.Instrs)-1].(*ssa.If)
		if !ok {
			continue
		}
		c := iff.Cond
		for i := 0; i < 3; i++ {
			if u, isU := c.(*ssa.UnOp); isU && u.Op == token.NOT {
				c = u.X
			}
		}
		add(c)
	}
	return out
}

// ReachableTrackingFlags: is there a path from start (nil: the function
// entry; otherwise right after that instruction) to target on which no
// instruction satisfying avoid executes first? The search carries the values
// of the function's boolean flags (phis that decide branches) along each path —
// a loop-carried `first := true … first = false` is known on every iteration —
// and takes the assumed truth value wherever an assumed comparison (or a flag
// that carries it) decides a branch.
func ReachableTrackingFlags(start ssa.Instruction, target ssa.Instruction, assume map[ssa.Value]bool, avoid func(ssa.Instruction) bool) bool {
	fn := target.Parent()
	if fn == nil || len(fn.Blocks) == 0 || (start != nil && start.Parent() != fn) {
		return false
	}
	closure := flagPhis(fn)
	byBlock := map[*ssa.BasicBlock][]*ssa.Phi{}
	var order []*ssa.Phi
	for ph := range closure {
		byBlock[ph.Block()] = append(byBlock[ph.Block()], ph)
		order = append(order, ph)
	}
	sort.Slice(order, func(i, j int) bool {
		if order[i].Block().Index != order[j].Block().Index {
			return order[i].Block().Index < order[j].Block().Index
		}
		return InstrIndex(order[i]) < InstrIndex(order[j])
	})
	type env map[*ssa.Phi]ssa.Value
	resolve := func(x ssa.Value, e env) ssa.Value {
		if ph, isPhi := x.(*ssa.Phi); isPhi {
			if r, has := e[ph]; has {
				return r
			}
		}
		return x
	}
	fp := func(e env) string {
		var sb strings.Builder
		for _, ph := range order {
			if r, has := e[ph]; has {
				fmt.Fprintf(&sb, "%p=%p;", ph, r)
			}
		}
		return sb.String()
	}
	var truth func(x ssa.Value, e env, d int) (bool, bool)
	truth = func(x ssa.Value, e env, d int) (bool, bool) {
		if d > 4 {
			return false, false
		}
		if u, isU := x.(*ssa.UnOp); isU && u.Op == token.NOT {
			t, known := truth(u.X, e, d+1)
			return !t, known
		}
		x = resolve(x, e)
		if t, has := assume[x]; has {
			return t, true
		}
		if c, isC := x.(*ssa.Const); isC && c.Value != nil {
			switch c.Value.String() {
			case "true":
				return true, true
			case "false":
				return false, true
			}
		}
		return false, false
	}
	type state struct {
		b, pred *ssa.BasicBlock
		e       env
	}
	old := assumed
	assumed = assume
	defer func() { assumed = old }()
	succs := func(s state) []*ssa.BasicBlock {
		if len(s.b.Succs) == 2 {
			if iff, isIf := s.b.Instrs[len(s.b.Instrs)-1].(*ssa.If); isIf {
				if t, known := truth(iff.Cond, s.e, 0); known {
					if t {
						return []*ssa.BasicBlock{s.b.Succs[0]}
					}
					return []*ssa.BasicBlock{s.b.Succs[1]}
				}
			}
		}
		return feasibleSuccsAssuming(s.b, s.pred)
	}
	seen := map[string]bool{}
	var work []state
	step := func(s state) {
		for _, t := range succs(s) {
			ne := env{}
			for k, x := range s.e {
				ne[k] = x
			}
			pi := predIndex(t, s.b)
			for _, ph := range byBlock[t] {
				if pi >= 0 && pi < len(ph.Edges) {
					ne[ph] = resolve(ph.Edges[pi], s.e)
				}
			}
			k := fmt.Sprintf("%d|%d|%s", t.Index, s.b.Index, fp(ne))
			if seen[k] {
				continue
			}
			seen[k] = true
			work = append(work, state{t, s.b, ne})
		}
	}
	// scan a block from index i; reports (found target, blocked)
	scan := func(b *ssa.BasicBlock, i int) (bool, bool) {
		for ; i < len(b.Instrs); i++ {
			in := b.Instrs[i]
			if in == target {
				return true, false
			}
			if avoid != nil && avoid(in) {
				return false, true
			}
		}
		return false, false
	}
	var first state
	if start == nil {
		first = state{fn.Blocks[0], nil, env{}}
		found, blocked := scan(first.b, 0)
		if found {
			return true
		}
		if !blocked {
			step(first)
		}
	} else {
		first = state{start.Block(), nil, env{}}
		found, blocked := scan(first.b, InstrIndex(start)+1)
		if found {
			return true
		}
		if !blocked {
			step(first)
		}
	}
	for n := 0; len(work) > 0; n++ {
		if n > 100000 {
			return true // cut off: cannot exclude
		}
		s := work[len(work)-1]
		work = work[:len(work)-1]
		found, blocked := scan(s.b, 0)
		if found {
			return true
		}
		if blocked {
			continue
		}
		step(s)
	}
	return false
}
