package core

import (
	"fmt"
	"go/constant"
	"go/token"
	"go/types"
	"sort"
	"strings"

	"golang.org/x/tools/go/ssa"
)

// E2 — provenance slices: the backward def-use closure of an SSA value,
// interprocedural over repo functions with one level of call-site sensitivity
// per descent (a callee's parameter is bound to the argument of the call the
// slice came through).

// SliceOpts tunes a slice.
type SliceOpts struct {
	Depth int // max nesting of repo calls entered (default 4)
	// BindParams: when the slice reaches a parameter with no calling context,
	// continue into the matching argument at every static call site in the repo.
	BindParams bool
	// HeapFields: when the slice reaches a field load T.f, also follow every
	// store to T.f anywhere in the repo (field-based heap model).
	HeapFields bool
	// StopAt, when it returns true for a value, makes that value a leaf.
	StopAt func(ssa.Value) bool
	// NoIndex: do not follow the index operand of element accesses (range
	// counters and their arithmetic are not part of the element's provenance).
	NoIndex bool
	// Control: when the slice reaches a phi all of whose incoming values are
	// constants (a flag or enum variable), continue into the conditions that
	// select its incoming edges. Used when slicing a guard: `switch mode {…}`
	// with `mode` computed by an if-chain is a test of what the if-chain tested.
	Control bool
}

// Slice is the result: leaves and every traversed value.
type Slice struct {
	p        *Program
	Leaves   map[string]bool
	LeafVals map[string][]ssa.Value
	Values   map[ssa.Value]bool
	Calls    map[ssa.CallInstruction]bool // every call traversed (entered or leaf)
	steps    int
	Trunc    bool // step/depth budget exhausted somewhere
}

type frame struct {
	call   ssa.CallInstruction
	callee *ssa.Function
	up     *frame
	depth  int
}

type visitKey struct {
	v   ssa.Value
	ctx *frame
}

type slicer struct {
	s    *Slice
	opts SliceOpts
	seen map[visitKey]bool
}

// SliceOf computes the backward slice of v.
func (p *Program) SliceOf(v ssa.Value, opts SliceOpts) *Slice {
	if opts.Depth == 0 {
		opts.Depth = 4
	} else if opts.Depth < 0 {
		opts.Depth = 0 // NoDescend: repo calls are leaves
	}
	s := &Slice{p: p, Leaves: map[string]bool{}, LeafVals: map[string][]ssa.Value{}, Values: map[ssa.Value]bool{}, Calls: map[ssa.CallInstruction]bool{}}
	sl := &slicer{s: s, opts: opts, seen: map[visitKey]bool{}}
	sl.visit(v, nil)
	return s
}

// SliceOfMany merges the slices of several values.
func (p *Program) SliceOfMany(vs []ssa.Value, opts SliceOpts) *Slice {
	if opts.Depth == 0 {
		opts.Depth = 4
	} else if opts.Depth < 0 {
		opts.Depth = 0 // NoDescend: repo calls are leaves
	}
	s := &Slice{p: p, Leaves: map[string]bool{}, LeafVals: map[string][]ssa.Value{}, Values: map[ssa.Value]bool{}, Calls: map[ssa.CallInstruction]bool{}}
	sl := &slicer{s: s, opts: opts, seen: map[visitKey]bool{}}
	for _, v := range vs {
		sl.visit(v, nil)
	}
	return s
}

func (s *Slice) leaf(desc string, v ssa.Value) {
	s.Leaves[desc] = true
	if v != nil {
		s.LeafVals[desc] = append(s.LeafVals[desc], v)
	}
}

// Has reports whether a leaf with exactly this descriptor is in the slice.
func (s *Slice) Has(desc string) bool { return s.Leaves[desc] }

// HasPrefix reports whether some leaf descriptor starts with prefix.
func (s *Slice) HasPrefix(prefix string) bool {
	for l := range s.Leaves {
		if strings.HasPrefix(l, prefix) {
			return true
		}
	}
	return false
}

// HasValue reports whether the SSA value was traversed.
func (s *Slice) HasValue(v ssa.Value) bool { return s.Values[v] }

// LeafList returns the sorted leaves (optionally filtered by prefix).
func (s *Slice) LeafList(prefix string) []string {
	var out []string
	for l := range s.Leaves {
		if strings.HasPrefix(l, prefix) {
			out = append(out, l)
		}
	}
	sort.Strings(out)
	return out
}

// HasCallTo reports whether a call with that callee name was traversed.
func (s *Slice) HasCallTo(name string) bool {
	return s.Leaves["call:"+name] || s.Leaves["via:"+name]
}

// CallsTo returns the traversed calls with that callee name.
func (s *Slice) CallsTo(name string) []ssa.CallInstruction {
	var out []ssa.CallInstruction
	for c := range s.Calls {
		if s.p.CalleeName(c) == name {
			out = append(out, c)
		}
	}
	return out
}

func constDesc(c *ssa.Const) string {
	if c.Value == nil {
		return "const:nil"
	}
	if c.Value.Kind() == constant.String {
		return "const:" + constant.StringVal(c.Value)
	}
	return "const:" + c.Value.ExactString()
}

func (sl *slicer) visit(v ssa.Value, ctx *frame) {
	if v == nil {
		return
	}
	s := sl.s
	k := visitKey{v, ctx}
	if sl.seen[k] {
		return
	}
	sl.seen[k] = true
	s.steps++
	if s.steps > 400000 {
		s.Trunc = true
		return
	}
	s.Values[v] = true
	if sl.opts.StopAt != nil && sl.opts.StopAt(v) {
		s.leaf("stop:"+v.Name(), v)
		return
	}
	p := s.p
	switch x := v.(type) {
	case *ssa.Const:
		s.leaf(constDesc(x), x)
		if n, ok := x.Type().(*types.Named); ok && x.Value != nil && x.Value.Kind() == constant.String {
			if n.Obj().Pkg() != nil && n.Obj().Pkg().Path() == ModPath {
				switch n.Obj().Name() {
				case "ErrorCode":
					s.leaf("errcode:"+constant.StringVal(x.Value), x)
				case "InternalErrorCode":
					s.leaf("interr:"+constant.StringVal(x.Value), x)
				}
			}
		}
	case *ssa.Parameter:
		sl.visitParam(x, ctx)
	case *ssa.FreeVar:
		sl.visitFreeVar(x, ctx)
	case *ssa.Phi:
		allConst := len(x.Edges) > 0
		for _, e := range x.Edges {
			sl.visit(e, ctx)
			if _, isK := e.(*ssa.Const); !isK && e != ssa.Value(x) {
				allConst = false
			}
		}
		if sl.opts.Control && allConst {
			// a flag / enum merged from constants carries no data: what it stands for is the
			// conditions that select its incoming edges (control dependence)
			for i := range x.Edges {
				if i >= len(x.Block().Preds) {
					continue
				}
				for _, g := range GuardsOfEdge(x.Block().Preds[i], x.Block()) {
					sl.visit(g.If.Cond, ctx)
				}
			}
		}
	case *ssa.BinOp:
		s.leaf("op:"+x.Op.String(), x)
		sl.visit(x.X, ctx)
		sl.visit(x.Y, ctx)
	case *ssa.UnOp:
		if x.Op == token.MUL {
			sl.visitLoad(x, ctx)
		} else {
			if x.Op == token.ARROW {
				s.leaf("chanrecv", x)
			}
			sl.visit(x.X, ctx)
		}
	case *ssa.Field:
		s.leaf("field:"+p.FieldName(x), x)
		sl.visit(x.X, ctx)
	case *ssa.FieldAddr:
		// address used as a value (e.g. passed as out-parameter)
		s.leaf("fieldaddr:"+p.FieldName(x), x)
		sl.visit(x.X, ctx)
	case *ssa.IndexAddr:
		sl.visit(x.X, ctx)
		if !sl.opts.NoIndex {
			sl.visit(x.Index, ctx)
		}
	case *ssa.Extract:
		if c, ok := x.Tuple.(*ssa.Call); ok {
			sl.visitCall(c, x.Index, ctx)
		} else {
			sl.visit(x.Tuple, ctx)
		}
	case *ssa.Call:
		sl.visitCall(x, -1, ctx)
	case *ssa.Convert:
		sl.visit(x.X, ctx)
	case *ssa.ChangeType:
		sl.visit(x.X, ctx)
	case *ssa.ChangeInterface:
		sl.visit(x.X, ctx)
	case *ssa.MakeInterface:
		sl.visit(x.X, ctx)
	case *ssa.SliceToArrayPointer:
		sl.visit(x.X, ctx)
	case *ssa.MultiConvert:
		sl.visit(x.X, ctx)
	case *ssa.TypeAssert:
		sl.visit(x.X, ctx)
	case *ssa.Slice:
		s.leaf("slice-expr", x)
		sl.visit(x.X, ctx)
		sl.visit(x.Low, ctx)
		sl.visit(x.High, ctx)
		sl.visit(x.Max, ctx)
	case *ssa.Index:
		sl.visit(x.X, ctx)
		sl.visit(x.Index, ctx)
	case *ssa.Lookup:
		sl.visit(x.X, ctx)
		sl.visit(x.Index, ctx)
	case *ssa.MakeClosure:
		if f, ok := x.Fn.(*ssa.Function); ok {
			s.leaf("closure:"+p.FuncName(f), x)
			for _, r := range Returns(f) {
				for _, rv := range r.Results {
					sl.visit(rv, ctx)
				}
			}
		}
	case *ssa.MakeSlice:
		s.leaf("make:"+p.TypeShort(x.Type()), x)
		sl.visit(x.Len, ctx)
		sl.visit(x.Cap, ctx)
		sl.visitContents(x, ctx)
	case *ssa.MakeMap:
		s.leaf("make:"+p.TypeShort(x.Type()), x)
		sl.visitContents(x, ctx)
	case *ssa.MakeChan:
		s.leaf("make:chan", x)
	case *ssa.Alloc:
		s.leaf("alloc:"+p.TypeShort(deref(x.Type())), x)
		sl.visitContents(x, ctx)
	case *ssa.Range:
		sl.visit(x.X, ctx)
	case *ssa.Next:
		sl.visit(x.Iter, ctx)
	case *ssa.Select:
		s.leaf("select", x)
	case *ssa.Function:
		s.leaf("func:"+p.staticName(x), x)
	case *ssa.Global:
		s.leaf("global:"+globalName(p, x), x)
		if sl.opts.HeapFields {
			sl.visitGlobalStores(x, ctx)
		}
	case *ssa.Builtin:
		s.leaf("builtin:"+x.Name(), x)
	default:
		s.leaf(fmt.Sprintf("unknown:%T", v), v)
	}
}

func globalName(p *Program, g *ssa.Global) string {
	if g.Pkg != nil {
		if sn, ok := p.short[g.Pkg.Pkg]; ok {
			return sn + "." + g.Name()
		}
		return g.Pkg.Pkg.Path() + "." + g.Name()
	}
	return g.Name()
}

func (sl *slicer) visitGlobalStores(g *ssa.Global, ctx *frame) {
	if g.Pkg == nil {
		return
	}
	if _, ok := sl.s.p.short[g.Pkg.Pkg]; !ok {
		return
	}
	for _, m := range g.Pkg.Members {
		f, ok := m.(*ssa.Function)
		if !ok || f.Name() != "init" {
			continue
		}
		Instrs(f, func(in ssa.Instruction) {
			if st, ok := in.(*ssa.Store); ok && st.Addr == g {
				sl.visit(st.Val, nil)
			}
		})
	}
}

func paramIndex(fn *ssa.Function, par *ssa.Parameter) int {
	for i, q := range fn.Params {
		if q == par {
			return i
		}
	}
	return -1
}

func (sl *slicer) visitParam(par *ssa.Parameter, ctx *frame) {
	fn := par.Parent()
	s := sl.s
	idx := paramIndex(fn, par)
	if ctx != nil && ctx.callee == fn && idx >= 0 {
		args := Args(ctx.call)
		if idx < len(args) {
			sl.visit(args[idx], ctx.up)
			return
		}
	}
	desc := "param:" + s.p.FuncName(fn) + "." + par.Name()
	s.leaf(desc, par)
	if sl.opts.BindParams && ctx == nil && idx >= 0 {
		for _, site := range s.p.StaticCallers(fn) {
			args := Args(site)
			if idx < len(args) {
				sl.visit(args[idx], nil)
			}
		}
	}
}

func (sl *slicer) visitFreeVar(fv *ssa.FreeVar, ctx *frame) {
	fn := fv.Parent()
	parent := fn.Parent()
	s := sl.s
	idx := -1
	for i, q := range fn.FreeVars {
		if q == fv {
			idx = i
		}
	}
	if parent == nil || idx < 0 {
		s.leaf("freevar:"+fv.Name(), fv)
		return
	}
	// drop the frame of a direct call into this closure
	if ctx != nil && ctx.callee == fn {
		ctx = ctx.up
	}
	if ctx != nil && ctx.callee != parent {
		ctx = nil
	}
	found := false
	Instrs(parent, func(in ssa.Instruction) {
		if mc, ok := in.(*ssa.MakeClosure); ok && mc.Fn == fn && idx < len(mc.Bindings) {
			found = true
			sl.visit(mc.Bindings[idx], ctx)
		}
	})
	if !found {
		s.leaf("freevar:"+fv.Name(), fv)
	}
}

// visitLoad handles *addr.
func (sl *slicer) visitLoad(ld *ssa.UnOp, ctx *frame) {
	s := sl.s
	p := s.p
	s.Values[ld.X] = true
	switch a := ld.X.(type) {
	case *ssa.Alloc:
		// local variable spilled to memory: the stores that reach this load
		// (flow-sensitive inside the function), plus every call or closure that
		// receives its address (out-parameter, captured variable).
		sl.visitLocalLoad(ld, a, ctx)
	case *ssa.FieldAddr:
		fname := p.FieldName(a)
		s.leaf("field:"+fname, ld)
		sl.visit(a.X, ctx)
		// same-object stores when the base is a local allocation
		if base := rootAlloc(a.X); base != nil {
			sl.visitContentsField(base, a.Field, deref(a.X.Type()), ctx)
		}
		if sl.opts.HeapFields {
			for _, st := range p.FieldStores(fname) {
				if st.Parent() == ld.Parent() {
					sl.visit(st.Val, ctx)
				} else {
					sl.visit(st.Val, nil)
				}
			}
		}
	case *ssa.IndexAddr:
		sl.visit(a.X, ctx)
		if !sl.opts.NoIndex {
			sl.visit(a.Index, ctx)
		}
	case *ssa.Global:
		s.leaf("global:"+globalName(p, a), ld)
		if sl.opts.HeapFields {
			sl.visitGlobalStores(a, ctx)
		}
	default:
		// pointer parameter, free variable (captured local), phi of pointers...
		if fv, ok := ld.X.(*ssa.FreeVar); ok {
			// captured variable: the alloc in the parent
			sl.visitFreeVar(fv, ctx)
			return
		}
		sl.visit(ld.X, ctx)
	}
}

// visitLocalLoad follows the stores to local variable a that can reach load
// ld without an intervening store, and whatever may write a indirectly.
func (sl *slicer) visitLocalLoad(ld *ssa.UnOp, a *ssa.Alloc, ctx *frame) {
	refs := a.Referrers()
	if refs == nil {
		return
	}
	isStoreTo := func(in ssa.Instruction) bool {
		st, ok := in.(*ssa.Store)
		return ok && st.Addr == a
	}
	for _, r := range *refs {
		st, ok := r.(*ssa.Store)
		if !ok || st.Addr != a {
			continue
		}
		if st.Parent() != ld.Parent() {
			sl.visit(st.Val, ctx)
			continue
		}
		self := st
		if ReachesAvoiding(st, ld, func(in ssa.Instruction) bool { return in != ssa.Instruction(self) && isStoreTo(in) }) {
			sl.visit(st.Val, ctx)
		}
	}
	// non-store writers: field/index stores, out-arguments, capturing closures
	sl.visitContentsNoDirectStores(a, ctx)
}

// rootAlloc returns the local Alloc a pointer value is (through phi-free
// copies), or nil.
func rootAlloc(v ssa.Value) *ssa.Alloc {
	for i := 0; i < 8; i++ {
		switch x := v.(type) {
		case *ssa.Alloc:
			return x
		case *ssa.ChangeType:
			v = x.X
		case *ssa.Convert:
			v = x.X
		default:
			return nil
		}
	}
	return nil
}

// visitContents follows everything written into a container/allocation:
// stores through it (directly or via field/index addresses), map updates,
// and calls that receive it (which may fill it).
func (sl *slicer) visitContents(c ssa.Value, ctx *frame) { sl.visitContentsOpt(c, ctx, true) }

func (sl *slicer) visitContentsNoDirectStores(c ssa.Value, ctx *frame) {
	sl.visitContentsOpt(c, ctx, false)
}

func (sl *slicer) visitContentsOpt(c ssa.Value, ctx *frame, direct bool) {
	refs := c.Referrers()
	if refs == nil {
		return
	}
	s := sl.s
	for _, r := range *refs {
		switch r := r.(type) {
		case *ssa.Store:
			if r.Addr == c && direct {
				sl.visit(r.Val, ctx)
			}
		case *ssa.FieldAddr:
			if r.X == c {
				sl.visitAddrStores(r, ctx)
			}
		case *ssa.IndexAddr:
			if r.X == c {
				sl.visitAddrStores(r, ctx)
			}
		case *ssa.MapUpdate:
			if r.Map == c {
				sl.visit(r.Key, ctx)
				sl.visit(r.Value, ctx)
			}
		case *ssa.Slice:
			if r.X == c {
				// slicing an array alloc: writes through the slice are not
				// tracked; the slice value itself is visited by its users.
			}
		case ssa.CallInstruction:
			// the address/container escapes into a call that may write it
			for _, a := range Args(r) {
				if a == c {
					name := s.p.CalleeName(r)
					if _, isAlloc := c.(*ssa.Alloc); isAlloc {
						s.leaf("outarg:"+name, c)
						s.Calls[r] = true
						// what the callee may write comes from its other inputs
						for _, o := range Args(r) {
							if o != c {
								sl.visit(o, ctx)
							}
						}
					}
				}
			}
		case *ssa.MakeClosure:
			// captured by a closure that may assign it: follow the closure's
			// stores to the free variable
			if f, ok := r.Fn.(*ssa.Function); ok {
				for i, b := range r.Bindings {
					if b == c && i < len(f.FreeVars) {
						fv := f.FreeVars[i]
						if fr := fv.Referrers(); fr != nil {
							for _, u := range *fr {
								if st, ok := u.(*ssa.Store); ok && st.Addr == fv {
									sl.visit(st.Val, nil)
								}
							}
						}
					}
				}
			}
		}
	}
}

func (sl *slicer) visitAddrStores(addr ssa.Value, ctx *frame) {
	refs := addr.Referrers()
	if refs == nil {
		return
	}
	for _, r := range *refs {
		switch r := r.(type) {
		case *ssa.Store:
			if r.Addr == addr {
				sl.visit(r.Val, ctx)
			}
		case *ssa.FieldAddr:
			if r.X == addr {
				sl.visitAddrStores(r, ctx)
			}
		case *ssa.IndexAddr:
			if r.X == addr {
				sl.visitAddrStores(r, ctx)
			}
		}
	}
}

// visitContentsField follows stores to one field of a local allocation.
func (sl *slicer) visitContentsField(a *ssa.Alloc, field int, t types.Type, ctx *frame) {
	refs := a.Referrers()
	if refs == nil {
		return
	}
	for _, r := range *refs {
		if fa, ok := r.(*ssa.FieldAddr); ok && fa.X == a && fa.Field == field {
			sl.visitAddrStores(fa, ctx)
		}
	}
}

// visitCall handles a call result; idx is the tuple index (-1: whole value).
func (sl *slicer) visitCall(c *ssa.Call, idx int, ctx *frame) {
	s := sl.s
	p := s.p
	s.Calls[c] = true
	s.Values[c] = true
	if sl.opts.StopAt != nil && sl.opts.StopAt(c) {
		s.leaf("stop:"+p.CalleeName(c), c)
		return
	}
	name := p.CalleeName(c)
	callee := StaticCallee(c)
	depth := 0
	if ctx != nil {
		depth = ctx.depth
	}
	if callee != nil && p.IsRepo(callee) && depth < sl.opts.Depth && !inStack(ctx, callee) {
		s.leaf("via:"+name, c)
		nf := &frame{call: c, callee: callee, up: ctx, depth: depth + 1}
		for _, r := range Returns(callee) {
			if idx >= 0 && idx < len(r.Results) {
				sl.visit(r.Results[idx], nf)
			} else {
				for _, rv := range r.Results {
					sl.visit(rv, nf)
				}
			}
		}
		return
	}
	if callee != nil && p.IsRepo(callee) {
		s.Trunc = true
	}
	s.leaf("call:"+name, c)
	if _, ok := c.Call.Value.(*ssa.Builtin); ok {
		for _, a := range c.Call.Args {
			sl.visit(a, ctx)
		}
		return
	}
	if !c.Call.IsInvoke() && callee == nil {
		sl.visit(c.Call.Value, ctx)
		// a call of a function value: the repo functions it can be (VTA call graph) are entered like
		// static callees — a table of constructors or handlers is a switch written as data
		if _, isBuiltin := c.Call.Value.(*ssa.Builtin); !isBuiltin && depth < sl.opts.Depth {
			if n := p.CallGraph().Nodes[c.Parent()]; n != nil {
				k := 0
				for _, e := range n.Out {
					if e.Site != ssa.CallInstruction(c) || e.Callee == nil || !p.IsRepo(e.Callee.Func) || inStack(ctx, e.Callee.Func) {
						continue
					}
					if k++; k > 8 {
						break
					}
					s.leaf("via:"+p.FuncName(e.Callee.Func), c)
					nf := &frame{call: c, callee: e.Callee.Func, up: ctx, depth: depth + 1}
					for _, r := range Returns(e.Callee.Func) {
						if idx >= 0 && idx < len(r.Results) {
							sl.visit(r.Results[idx], nf)
						} else {
							for _, rv := range r.Results {
								sl.visit(rv, nf)
							}
						}
					}
				}
			}
		}
	}
	for _, a := range Args(c) {
		sl.visit(a, ctx)
	}
	// state of the receiver object: what earlier calls fed into it
	// (hash.Write before hash.Sum; io.Copy into a MultiWriter over the hasher)
	if args := Args(c); len(args) > 0 && (c.Call.IsInvoke() || c.Call.Signature().Recv() != nil) {
		sl.visitContributors(args[0], c, ctx, 0)
	}
}

// visitContributors follows what other calls put into a stateful object o
// (writer, hasher, buffer): the arguments of calls that have o as receiver or
// argument, and — when such a call returns a wrapper around o — of calls on the
// wrapper.
func (sl *slicer) visitContributors(o ssa.Value, except ssa.Instruction, ctx *frame, depth int) {
	if depth > 2 || o == nil {
		return
	}
	switch o.(type) {
	case *ssa.Const, *ssa.Global, *ssa.Function:
		return
	}
	if !isStatefulType(o.Type()) {
		return
	}
	refs := o.Referrers()
	if refs == nil {
		return
	}
	for _, r := range *refs {
		// the object converted to another interface, or placed in a variadic
		// argument list, is still the same object
		switch x := r.(type) {
		case *ssa.ChangeInterface:
			sl.visitContributors(x, except, ctx, depth)
			continue
		case *ssa.MakeInterface:
			sl.visitContributors(x, except, ctx, depth)
			continue
		case *ssa.Store:
			if x.Val == o {
				if ia, ok := x.Addr.(*ssa.IndexAddr); ok {
					if arr, ok := ia.X.(*ssa.Alloc); ok {
						for _, ar := range *arr.Referrers() {
							if ss, ok := ar.(*ssa.Slice); ok {
								sl.visitContributorCalls(ss, o, except, ctx, depth)
							}
						}
					}
				}
			}
			continue
		}
		ci, ok := r.(ssa.CallInstruction)
		if !ok || r == except {
			continue
		}
		k := visitKey{v: o, ctx: ctx}
		_ = k
		uses := false
		for _, a := range Args(ci) {
			if a == o {
				uses = true
			}
		}
		if !uses {
			continue
		}
		// only calls that hand something to the object can contribute to its
		// state: getters without further arguments do not
		if len(Args(ci)) < 2 {
			continue
		}
		if sl.s.Calls[ci] {
			continue
		}
		sl.s.Calls[ci] = true
		sl.s.leaf("feeds:"+sl.s.p.CalleeName(ci), nil)
		for _, a := range Args(ci) {
			if a != o {
				sl.visit(a, ctx)
			}
		}
		if v, ok := ci.(*ssa.Call); ok && v.Type() != nil {
			if _, isTuple := v.Type().(*types.Tuple); !isTuple {
				sl.visitContributors(v, ci, ctx, depth+1)
			}
		}
	}
}

// visitContributorCalls handles calls that receive the object inside a
// variadic slice (io.MultiWriter(f, hasher)).
func (sl *slicer) visitContributorCalls(vs *ssa.Slice, o ssa.Value, except ssa.Instruction, ctx *frame, depth int) {
	refs := vs.Referrers()
	if refs == nil {
		return
	}
	for _, r := range *refs {
		ci, ok := r.(ssa.CallInstruction)
		if !ok || r == except || sl.s.Calls[ci] {
			continue
		}
		sl.s.Calls[ci] = true
		sl.s.leaf("feeds:"+sl.s.p.CalleeName(ci), nil)
		for _, a := range Args(ci) {
			if a != ssa.Value(vs) {
				sl.visit(a, ctx)
			}
		}
		if v, ok := ci.(*ssa.Call); ok && v.Type() != nil {
			if _, isTuple := v.Type().(*types.Tuple); !isTuple {
				sl.visitContributors(v, ci, ctx, depth+1)
			}
		}
	}
}

// isStatefulType: interfaces and pointers (objects with identity), not plain
// values, strings or slices.
func isStatefulType(t types.Type) bool {
	switch t.Underlying().(type) {
	case *types.Interface, *types.Pointer:
		return true
	}
	return false
}

func inStack(ctx *frame, fn *ssa.Function) bool {
	for f := ctx; f != nil; f = f.up {
		if f.callee == fn {
			return true
		}
	}
	return false
}

// FieldStores returns every Store in the repo whose address is the named field
// ("short.Type.field").
func (p *Program) FieldStores(fname string) []*ssa.Store {
	p.indexFields()
	return p.fieldStores[fname]
}

// FieldLoads returns every load (UnOp MUL of a FieldAddr, or Field) of the
// named field in the repo.
func (p *Program) FieldLoads(fname string) []ssa.Value {
	p.indexFields()
	return p.fieldLoads[fname]
}

// FieldAddrs returns every FieldAddr instruction of the named field.
func (p *Program) FieldAddrs(fname string) []*ssa.FieldAddr {
	p.indexFields()
	return p.fieldAddrs[fname]
}

func (p *Program) indexFields() {
	if p.fieldStores != nil {
		return
	}
	p.fieldStores = map[string][]*ssa.Store{}
	p.fieldLoads = map[string][]ssa.Value{}
	p.fieldAddrs = map[string][]*ssa.FieldAddr{}
	for _, fn := range p.RepoFuncs() {
		Instrs(fn, func(in ssa.Instruction) {
			switch x := in.(type) {
			case *ssa.FieldAddr:
				n := p.FieldName(x)
				p.fieldAddrs[n] = append(p.fieldAddrs[n], x)
				if refs := x.Referrers(); refs != nil {
					for _, r := range *refs {
						switch r := r.(type) {
						case *ssa.Store:
							if r.Addr == x {
								p.fieldStores[n] = append(p.fieldStores[n], r)
							}
						case *ssa.UnOp:
							if r.Op == token.MUL {
								p.fieldLoads[n] = append(p.fieldLoads[n], r)
							}
						}
					}
				}
			case *ssa.Field:
				n := p.FieldName(x)
				p.fieldLoads[n] = append(p.fieldLoads[n], x)
			}
		})
	}
}

// StaticCallers returns the call sites in repo functions that statically call
// fn (incl. through MakeClosure values).
func (p *Program) StaticCallers(fn *ssa.Function) []ssa.CallInstruction {
	if p.callers == nil {
		p.callers = map[*ssa.Function][]ssa.CallInstruction{}
		for _, f := range p.RepoFuncs() {
			Instrs(f, func(in ssa.Instruction) {
				if c, ok := in.(ssa.CallInstruction); ok {
					if cal := StaticCallee(c); cal != nil {
						p.callers[cal] = append(p.callers[cal], c)
					}
				}
			})
		}
	}
	return p.callers[fn]
}

// GlobalName is the short name ("pkg.var") of a package-level variable.
func (p *Program) GlobalName(g *ssa.Global) string { return globalName(p, g) }

// GlobalStores returns the stores to a package-level variable in its
// package's initialiser.
func (p *Program) GlobalStores(g *ssa.Global) []*ssa.Store {
	var out []*ssa.Store
	if g.Pkg == nil {
		return nil
	}
	for _, m := range g.Pkg.Members {
		f, ok := m.(*ssa.Function)
		if !ok || f.Name() != "init" {
			continue
		}
		Instrs(f, func(in ssa.Instruction) {
			if st, ok := in.(*ssa.Store); ok && st.Addr == ssa.Value(g) {
				out = append(out, st)
			}
		})
	}
	return out
}
