package core

import (
	"encoding/json"
	"fmt"
	"os"
	"path/filepath"
	"sort"
	"strings"
	"time"
)

// Obligation is one rule instance evaluated on the current tree.
type Obligation struct {
	Rule   string `json:"rule"`
	Key    string `json:"construct"` // stable key: function + instance (never a line number)
	Pos    string `json:"pos"`
	Status string `json:"status"` // held | violated | known | info
	Detail string `json:"detail,omitempty"`
	Path   string `json:"path,omitempty"`
	// NonTrivial marks obligations for which a path/flow query was actually run
	NonTrivial bool `json:"-"`
}

// KnownFinding is one entry of /verif/known_findings.json.
type KnownFinding struct {
	Status     string   `json:"status"` // "known" (suppresses, prints KNOWN-FINDING) or "fixed" (suppresses nothing)
	Properties []string `json:"properties"`
	Rule       string   `json:"rule"`
	Construct  string   `json:"construct"`
	What       string   `json:"what"`
	Commit     string   `json:"commit,omitempty"`
	ID         string   `json:"id,omitempty"`
}

type knownFile struct {
	Comment  string         `json:"_comment"`
	Findings []KnownFinding `json:"findings"`
}

// Run collects the obligations of one property check.
type Run struct {
	Prop        string
	Tier        string
	Seed        int64
	VerifDir    string
	Start       time.Time
	P           *Program
	Obls        []Obligation
	floors      []floor
	unresolved  []string
	skipFloors  map[string]bool
	known       []KnownFinding
	reviews     []string
	Rules       map[string]string // rule id -> one-line statement
	Extra       map[string]interface{}
	Explanation string
	NotDecided  string
	TrustedBase []string
	Assumptions []string
}

type floor struct {
	rule string
	min  int
	what string
}

// NewRun prepares a run and loads the known-findings file.
func NewRun(prop, tier, verifDir string, p *Program, start time.Time) (*Run, error) {
	r := &Run{Prop: prop, Tier: tier, VerifDir: verifDir, Start: start, P: p,
		Rules: map[string]string{}, Extra: map[string]interface{}{}}
	if s := os.Getenv("VERIF_SEED"); s != "" {
		fmt.Sscanf(s, "%d", &r.Seed)
	}
	bts, err := os.ReadFile(filepath.Join(verifDir, "known_findings.json"))
	if err == nil {
		var kf knownFile
		if err := json.Unmarshal(bts, &kf); err != nil {
			return nil, fmt.Errorf("known_findings.json: %w", err)
		}
		r.known = kf.Findings
	}
	return r, nil
}

// Rule registers the one-line statement of a rule (for evidence).
func (r *Run) Rule(id, statement string) { r.Rules[id] = statement }

func (r *Run) add(o Obligation) {
	o.NonTrivial = true
	r.Obls = append(r.Obls, o)
}

// Held records a satisfied rule instance.
func (r *Run) Held(rule, key, pos, detail string) {
	r.add(Obligation{Rule: rule, Key: key, Pos: pos, Status: "held", Detail: detail})
}

// Violated records a violated rule instance.
func (r *Run) Violated(rule, key, pos, detail string) {
	r.add(Obligation{Rule: rule, Key: key, Pos: pos, Status: "violated", Detail: detail})
}

// Check records held/violated depending on ok.
func (r *Run) Check(ok bool, rule, key, pos, heldDetail, violDetail string) bool {
	if ok {
		r.Held(rule, key, pos, heldDetail)
	} else {
		r.Violated(rule, key, pos, violDetail)
	}
	return ok
}

// Info records an informational line (never a violation).
func (r *Run) Info(rule, key, pos, detail string) {
	r.Obls = append(r.Obls, Obligation{Rule: rule, Key: key, Pos: pos, Status: "info", Detail: detail})
}

// Review prints a REVIEW line (informational).
func (r *Run) Review(format string, a ...interface{}) {
	r.reviews = append(r.reviews, fmt.Sprintf(format, a...))
}

// Floor demands that rule matched at least min instances (held+violated);
// otherwise the rule can no longer see its subject and the run is UNRESOLVED.
func (r *Run) Floor(rule string, min int, what string) {
	if r.skipFloors[rule] {
		return
	}
	r.floors = append(r.floors, floor{rule, min, what})
}

// ViolatedKeys returns the (rule|construct) keys currently violated, after the
// floors were evaluated; used to compare platform runs.
func (r *Run) ViolatedKeys() map[string]Obligation {
	out := map[string]Obligation{}
	for _, o := range r.Obls {
		if o.Status == "violated" {
			out[o.Rule+"|"+o.Key] = o
		}
	}
	return out
}

// CheckFloors evaluates the floors now (idempotent) and returns the messages.
func (r *Run) CheckFloors() []string {
	var out []string
	for _, f := range r.floors {
		if n := r.Count(f.rule); n < f.min {
			out = append(out, fmt.Sprintf("rule %s matched %d instance(s), below its floor of %d (%s)", f.rule, n, f.min, f.what))
		}
	}
	return out
}

// UnresolvedList exposes the unresolved messages.
func (r *Run) UnresolvedList() []string { return r.unresolved }

// SkipFloor drops the floors of a rule (used when its obligation source is
// deliberately not consulted, e.g. host-only inputs in the platform matrix).
func (r *Run) SkipFloor(rule string) {
	var out []floor
	for _, f := range r.floors {
		if f.rule != rule {
			out = append(out, f)
		}
	}
	r.floors = out
	if r.skipFloors == nil {
		r.skipFloors = map[string]bool{}
	}
	r.skipFloors[rule] = true
}

// Unresolved records that an anchor could not be resolved (exit 2).
func (r *Run) Unresolved(format string, a ...interface{}) {
	r.unresolved = append(r.unresolved, fmt.Sprintf(format, a...))
}

// Count returns how many obligations of rule exist.
func (r *Run) Count(rule string) int {
	n := 0
	for _, o := range r.Obls {
		if o.Rule == rule && o.Status != "info" {
			n++
		}
	}
	return n
}

func (r *Run) matchKnown(o Obligation) *KnownFinding {
	for i := range r.known {
		k := &r.known[i]
		if k.Status != "known" {
			continue
		}
		if k.Rule != o.Rule || k.Construct != o.Key {
			continue
		}
		for _, pr := range k.Properties {
			if pr == r.Prop {
				return k
			}
		}
	}
	return nil
}

// Finish prints the report, writes evidence and replay files, and returns the
// process exit code.
func (r *Run) Finish() int {
	for _, f := range r.floors {
		if n := r.Count(f.rule); n < f.min {
			r.Unresolved("rule %s matched %d instance(s), below its floor of %d (%s)", f.rule, n, f.min, f.what)
		}
	}
	outDir := filepath.Join(r.VerifDir, "out", r.Prop)
	os.MkdirAll(outDir, 0o755)
	// clear old replay files
	if ents, err := os.ReadDir(outDir); err == nil {
		for _, e := range ents {
			if strings.HasPrefix(e.Name(), "v-") || strings.HasPrefix(e.Name(), "u-") {
				os.Remove(filepath.Join(outDir, e.Name()))
			}
		}
	}
	sort.SliceStable(r.Obls, func(i, j int) bool {
		if r.Obls[i].Rule != r.Obls[j].Rule {
			return r.Obls[i].Rule < r.Obls[j].Rule
		}
		return r.Obls[i].Key < r.Obls[j].Key
	})
	nViol, nKnown, nHeld, nInfo := 0, 0, 0, 0
	knownHit := []string{}
	seenKnown := map[string]bool{}
	distinct := map[string]bool{}
	var violLines []string
	for i := range r.Obls {
		o := &r.Obls[i]
		switch o.Status {
		case "held":
			nHeld++
			distinct[o.Rule+"|"+o.Key] = true
		case "info":
			nInfo++
		case "violated":
			distinct[o.Rule+"|"+o.Key] = true
			if k := r.matchKnown(*o); k != nil {
				o.Status = "known"
				nKnown++
				id := k.Rule + "|" + k.Construct
				if !seenKnown[id] {
					seenKnown[id] = true
					fmt.Printf("KNOWN-FINDING: property=%s %s %s at %s: %s\n", r.Prop, o.Rule, o.Key, o.Pos, k.What)
					knownHit = append(knownHit, o.Rule+" "+o.Key)
				}
				continue
			}
			nViol++
			replay := filepath.Join(outDir, fmt.Sprintf("v-%03d.json", nViol))
			bts, _ := json.MarshalIndent(map[string]interface{}{
				"property": r.Prop, "rule": o.Rule, "construct": o.Key, "pos": o.Pos,
				"detail": o.Detail, "path": o.Path, "statement": r.Rules[o.Rule],
				"replay_cmd": fmt.Sprintf("./check %s --replay %s", r.Prop, replay),
			}, "", " ")
			os.WriteFile(replay, bts, 0o644)
			violLines = append(violLines,
				fmt.Sprintf("%s %s [%s]: %s", o.Pos, o.Rule, o.Key, o.Detail),
				fmt.Sprintf("VIOLATION property=%s replay=%s", r.Prop, replay))
		}
	}
	for _, l := range r.reviews {
		fmt.Printf("REVIEW: %s\n", l)
	}
	wall := time.Since(r.Start).Seconds()
	exit := 0
	// An anchor a rule needs is gone (or a rule matches fewer instances than
	// were confirmed by hand): the structural condition can no longer be
	// established on this tree. Under the check contract that is "not held":
	// reported as a violation naming the rule instance that could not be decided.
	for i, u := range r.unresolved {
		fmt.Printf("UNRESOLVED property=%s %s\n", r.Prop, u)
		replay := filepath.Join(outDir, fmt.Sprintf("u-%03d.json", i+1))
		bts, _ := json.MarshalIndent(map[string]interface{}{
			"property": r.Prop, "rule": "unresolved", "construct": u, "pos": "",
			"detail":     "the construct this rule is anchored in was not found in the shape the rule can decide: the necessary condition cannot be established on this tree",
			"replay_cmd": fmt.Sprintf("./check %s --replay %s", r.Prop, replay),
		}, "", " ")
		os.WriteFile(replay, bts, 0o644)
		violLines = append(violLines, fmt.Sprintf("VIOLATION property=%s replay=%s", r.Prop, replay))
		exit = 1
	}
	for _, l := range violLines {
		fmt.Println(l)
	}
	if nViol > 0 {
		exit = 1
	}
	// evidence
	perRule := map[string]map[string]int{}
	for _, o := range r.Obls {
		if perRule[o.Rule] == nil {
			perRule[o.Rule] = map[string]int{}
		}
		perRule[o.Rule][o.Status]++
	}
	var samples []Obligation
	seenRule := map[string]int{}
	for _, o := range r.Obls {
		if o.Status == "info" {
			continue
		}
		if seenRule[o.Rule] < 3 || o.Status != "held" {
			samples = append(samples, o)
			seenRule[o.Rule]++
		}
		if len(samples) >= 80 {
			break
		}
	}
	var ruleList []string
	for id, st := range r.Rules {
		ruleList = append(ruleList, id+": "+st)
	}
	sort.Strings(ruleList)
	nObl := nHeld + nKnown + nViol
	cov := map[string]interface{}{
		"explanation":         r.Explanation,
		"not_decided":         r.NotDecided,
		"obligations":         nObl,
		"discharged":          nHeld,
		"evaluations":         nObl,
		"distinct_nontrivial": len(distinct),
		"rule": "one evaluation = one rule instance (rule id x construct: a call site, store, return, field or function pair found in the type-checked SSA of /repo's working tree) " +
			"for which a dominance, reachability, provenance-slice, lockset or table query was run; distinct = distinct (rule, construct) keys; trivial instances are not generated",
		"samples":            samples,
		"rules":              ruleList,
		"per_rule":           perRule,
		"known_findings_hit": knownHit,
		"informational":      nInfo,
		"checker_cmd":        fmt.Sprintf("/verif/bin/gfs3check -prop %s -tier %s -repo %s", r.Prop, r.Tier, r.P.Root),
		"trusted_base":       append([]string{"go/types + go/ssa (x/tools v0.29.0)", "VTA call graph over-approximation", "tables transcribed from backend.go comments and the property text"}, r.TrustedBase...),
		"packages":           r.P.NPackagesLoaded,
		"functions_analysed": len(r.P.RepoFuncs()),
		"load_s":             r.P.LoadSecs,
		"ssa_s":              r.P.SSASecs,
		"callgraph_s":        r.P.CGSecs,
		"unresolved":         r.unresolved,
		"exhaustive":         false,
	}
	if r.P != nil && r.P.Inline != nil && (len(r.P.Inline.Inlined) > 0 || len(r.P.Inline.Fallback) > 0 || len(r.P.Inline.Declined) > 0 || len(r.P.Inline.Scalarised) > 0) {
		cov["helper_inlining"] = map[string]interface{}{
			"inlined": r.P.Inline.Inlined, "declined": r.P.Inline.Declined, "removed_helpers": r.P.Inline.Removed, "fallback": r.P.Inline.Fallback,
			"scalarised": r.P.Inline.Scalarised,
			"note":       "functions outside the baseline inventory are expanded into their callers before SSA construction (internal/inline)",
		}
	}
	for k, v := range r.Extra {
		cov[k] = v
	}
	ev := map[string]interface{}{
		"property_id": r.Prop,
		"tier":        r.Tier,
		"seed":        r.Seed,
		"level":       "other",
		"coverage":    cov,
		"assumptions": append([]string{
			"static analysis of the source only: no gofakes3 code is executed",
			"dependencies (bbolt, afero, goskiplist, stdlib) behave as documented",
		}, r.Assumptions...),
		"wall_s":     wall,
		"violations": nViol,
	}
	evDir := filepath.Join(r.VerifDir, "evidence")
	os.MkdirAll(evDir, 0o755)
	bts, _ := json.MarshalIndent(ev, "", " ")
	if err := os.WriteFile(filepath.Join(evDir, r.Prop+".json"), append(bts, '\n'), 0o644); err != nil {
		fmt.Printf("UNRESOLVED property=%s cannot write evidence: %v\n", r.Prop, err)
		if exit == 0 {
			exit = 2
		}
	}
	fmt.Printf("%s %s: %d obligations, %d held, %d known finding(s), %d violation(s), %d unresolved, %.1fs\n",
		r.Prop, r.Tier, nObl, nHeld, nKnown, nViol, len(r.unresolved), wall)
	return exit
}
