package core

import (
	"go/constant"
	"go/types"
	"strings"

	"golang.org/x/tools/go/ssa"
)

// CalleeName gives a stable, type-resolved name for the target of a call:
//
//	static repo function     "gofakes3.(*GoFakeS3).ensureBucketExists"
//	static external function "io.Copy", "(*go.etcd.io/bbolt.DB).Update"
//	interface method         "invoke:gofakes3.Backend.PutObject", "invoke:github.com/spf13/afero.Fs.Stat"
//	builtin                  "builtin:len"
//	function value           "dyn"
func (p *Program) CalleeName(c ssa.CallInstruction) string {
	cc := c.Common()
	if cc.IsInvoke() {
		return "invoke:" + p.TypeShort(cc.Value.Type()) + "." + cc.Method.Name()
	}
	switch v := cc.Value.(type) {
	case *ssa.Builtin:
		return "builtin:" + v.Name()
	case *ssa.Function:
		return p.staticName(v)
	case *ssa.MakeClosure:
		if f, ok := v.Fn.(*ssa.Function); ok {
			return p.staticName(f)
		}
	}
	return "dyn"
}

func (p *Program) staticName(f *ssa.Function) string {
	// bound-method and thunk wrappers: name the wrapped method
	if f.Synthetic != "" && f.Object() != nil {
		if fo, ok := f.Object().(*types.Func); ok {
			if sn, ok := p.short[fo.Pkg()]; ok {
				_ = sn
			}
		}
	}
	if p.PkgShort(f) != "" {
		return p.FuncName(f)
	}
	return f.String()
}

// StaticCallee returns the statically known callee (through MakeClosure too).
func StaticCallee(c ssa.CallInstruction) *ssa.Function {
	cc := c.Common()
	if cc.IsInvoke() {
		return nil
	}
	switch v := cc.Value.(type) {
	case *ssa.Function:
		return v
	case *ssa.MakeClosure:
		f, _ := v.Fn.(*ssa.Function)
		return f
	}
	return nil
}

// Args returns the actual arguments including the receiver (first) for
// invoke-mode calls.
func Args(c ssa.CallInstruction) []ssa.Value {
	cc := c.Common()
	if cc.IsInvoke() {
		return append([]ssa.Value{cc.Value}, cc.Args...)
	}
	return cc.Args
}

// CallsIn lists the calls (call, defer, go) in fn — and its closures when deep —
// whose callee name satisfies match.
func (p *Program) CallsIn(fn *ssa.Function, deep bool, match func(name string) bool) []ssa.CallInstruction {
	var out []ssa.CallInstruction
	visit := func(f *ssa.Function) {
		Instrs(f, func(in ssa.Instruction) {
			if c, ok := in.(ssa.CallInstruction); ok {
				if match(p.CalleeName(c)) {
					out = append(out, c)
				}
			}
		})
	}
	if deep {
		for _, f := range Closures(fn) {
			visit(f)
		}
	} else {
		visit(fn)
	}
	return out
}

// NameIs builds a matcher for exact names.
func NameIs(names ...string) func(string) bool {
	return func(n string) bool {
		for _, x := range names {
			if n == x {
				return true
			}
		}
		return false
	}
}

// NameHasPrefix builds a matcher on prefixes.
func NameHasPrefix(prefixes ...string) func(string) bool {
	return func(n string) bool {
		for _, x := range prefixes {
			if strings.HasPrefix(n, x) {
				return true
			}
		}
		return false
	}
}

// NameHasSuffix builds a matcher on suffixes.
func NameHasSuffix(suffixes ...string) func(string) bool {
	return func(n string) bool {
		for _, x := range suffixes {
			if strings.HasSuffix(n, x) {
				return true
			}
		}
		return false
	}
}

// FieldOf resolves the struct field addressed by a FieldAddr / read by a Field,
// returning "pkgshort.Type.field" (named struct) or ".field" for anonymous.
func (p *Program) FieldName(in ssa.Instruction) string {
	switch v := in.(type) {
	case *ssa.FieldAddr:
		// a field reached through an embedded (anonymous) unexported helper struct is named by the
		// struct it is promoted to: `result.NextKeyMarker` is the same field whether it is declared
		// on the result type or on a struct embedded in it
		if outer, ok := v.X.(*ssa.FieldAddr); ok {
			if ost, ok := deref(outer.X.Type()).Underlying().(*types.Struct); ok && outer.Field < ost.NumFields() {
				ef := ost.Field(outer.Field)
				if ef.Embedded() && !ef.Exported() {
					if ist, ok := deref(v.X.Type()).Underlying().(*types.Struct); ok && v.Field < ist.NumFields() {
						on := p.FieldName(outer)
						if i := strings.LastIndex(on, "."); i > 0 {
							return on[:i] + "." + ist.Field(v.Field).Name()
						}
					}
				}
			}
		}
		return p.fieldName(deref(v.X.Type()), v.Field)
	case *ssa.Field:
		return p.fieldName(v.X.Type(), v.Field)
	}
	return ""
}

func deref(t types.Type) types.Type {
	if pt, ok := t.Underlying().(*types.Pointer); ok {
		return pt.Elem()
	}
	return t
}

func (p *Program) fieldName(t types.Type, idx int) string {
	st, ok := t.Underlying().(*types.Struct)
	if !ok || idx >= st.NumFields() {
		return "?"
	}
	name := st.Field(idx).Name()
	tn := "struct"
	if n, ok := t.(*types.Named); ok {
		tn = n.Obj().Name()
		if n.Obj().Pkg() != nil {
			if sn, ok := p.short[n.Obj().Pkg()]; ok {
				tn = sn + "." + tn
			} else {
				tn = n.Obj().Pkg().Path() + "." + tn
			}
		}
	}
	return tn + "." + name
}

// ConstString returns the string value of a constant (through conversions).
func ConstString(v ssa.Value) (string, bool) {
	for {
		switch x := v.(type) {
		case *ssa.Convert:
			v = x.X
			continue
		case *ssa.ChangeType:
			v = x.X
			continue
		case *ssa.MakeInterface:
			v = x.X
			continue
		case *ssa.Const:
			if x.Value != nil && x.Value.Kind() == constant.String {
				return constant.StringVal(x.Value), true
			}
			return "", false
		}
		return "", false
	}
}

// ConstInt returns the integer value of a constant.
func ConstInt(v ssa.Value) (int64, bool) {
	for {
		switch x := v.(type) {
		case *ssa.Convert:
			v = x.X
			continue
		case *ssa.ChangeType:
			v = x.X
			continue
		case *ssa.Const:
			if x.Value != nil && x.Value.Kind() == constant.Int {
				return x.Int64(), true
			}
			return 0, false
		}
		return 0, false
	}
}
