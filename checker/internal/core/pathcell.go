package core

import (
	"fmt"
	"go/token"
	"sort"
	"strings"

	"golang.org/x/tools/go/ssa"
)

// Outcome is what a value is when an instruction executes, on one class of
// paths: the resolved value and whether the branches taken on the way say it
// is non-nil.
type Outcome struct {
	Val    ssa.Value
	NonNil bool
}

// PathOutcomes explores the paths from the function entry to instruction at on
// which no instruction satisfying avoid executes, and reports what v is when
// at executes. Along each path it carries (a) the value of every boolean flag
// and of the phis v is merged from, by the edges taken; (b) the value last
// stored into every private local that go/ssa keeps in memory (named results of
// functions with a defer, captured-free address-taken locals) — a load of such
// a local is the value stored on this path; (c) the outcome of every nil test
// taken, attached to the resolved operand. ok is false if the exploration was
// cut off.
func PathOutcomes(at ssa.Instruction, v ssa.Value, avoid func(ssa.Instruction) bool) (out []Outcome, ok bool) {
	fn := at.Parent()
	if fn == nil || len(fn.Blocks) == 0 {
		return nil, false
	}
	// private cells
	private := map[*ssa.Alloc]bool{}
	for _, b := range fn.Blocks {
		for _, in := range b.Instrs {
			a, isA := in.(*ssa.Alloc)
			if !isA || a.Referrers() == nil {
				continue
			}
			priv := true
			for _, ref := range *a.Referrers() {
				switch x := ref.(type) {
				case *ssa.UnOp:
				case *ssa.Store:
					if x.Val == ssa.Value(a) {
						priv = false
					}
				case *ssa.DebugRef:
				default:
					priv = false
				}
			}
			if priv {
				private[a] = true
			}
		}
	}
	closure := flagPhis(fn)
	var add func(x ssa.Value)
	add = func(x ssa.Value) {
		ph, isPhi := x.(*ssa.Phi)
		if !isPhi || closure[ph] {
			return
		}
		closure[ph] = true
		for _, e := range ph.Edges {
			add(e)
		}
	}
	add(v)
	// phis that cells are stored from
	for _, b := range fn.Blocks {
		for _, in := range b.Instrs {
			if st, isSt := in.(*ssa.Store); isSt {
				if a, isA := st.Addr.(*ssa.Alloc); isA && private[a] {
					add(st.Val)
				}
			}
		}
	}
	byBlock := map[*ssa.BasicBlock][]*ssa.Phi{}
	for ph := range closure {
		byBlock[ph.Block()] = append(byBlock[ph.Block()], ph)
	}
	type state struct {
		b, pred *ssa.BasicBlock
		env     map[*ssa.Phi]ssa.Value
		cells   map[*ssa.Alloc]ssa.Value
		nils    map[ssa.Value]bool // resolved value -> is nil
		facts   map[ssa.Value]bool // branch condition value -> outcome
	}
	var resolve func(x ssa.Value, s *state, d int) ssa.Value
	resolve = func(x ssa.Value, s *state, d int) ssa.Value {
		if d > 8 {
			return x
		}
		switch y := x.(type) {
		case *ssa.Phi:
			if r, has := s.env[y]; has && r != x {
				return resolve(r, s, d+1)
			}
		case *ssa.UnOp:
			if y.Op == token.MUL {
				if a, isA := y.X.(*ssa.Alloc); isA && private[a] {
					if r, has := s.cells[a]; has {
						return resolve(r, s, d+1)
					}
				}
			}
		case *ssa.ChangeInterface:
			return resolve(y.X, s, d+1)
		}
		return x
	}
	fp := func(s *state) string {
		var ks []string
		for k, x := range s.env {
			ks = append(ks, fmt.Sprintf("e%p=%p", k, x))
		}
		for k, x := range s.cells {
			ks = append(ks, fmt.Sprintf("c%p=%p", k, x))
		}
		for k, x := range s.nils {
			ks = append(ks, fmt.Sprintf("n%p=%v", k, x))
		}
		for k, x := range s.facts {
			ks = append(ks, fmt.Sprintf("f%p=%v", k, x))
		}
		sort.Strings(ks)
		return strings.Join(ks, ",")
	}
	clone := func(s *state) *state {
		n := &state{env: map[*ssa.Phi]ssa.Value{}, cells: map[*ssa.Alloc]ssa.Value{}, nils: map[ssa.Value]bool{}, facts: map[ssa.Value]bool{}}
		for k, x := range s.env {
			n.env[k] = x
		}
		for k, x := range s.cells {
			n.cells[k] = x
		}
		for k, x := range s.nils {
			n.nils[k] = x
		}
		for k, x := range s.facts {
			n.facts[k] = x
		}
		return n
	}
	seenOut := map[string]bool{}
	record := func(s *state) {
		r := resolve(v, s, 0)
		nn := false
		if isNil, has := s.nils[r]; has && !isNil {
			nn = true
		}
		if !nn && NilnessAt(r, nil) == NonNil {
			nn = true
		}
		k := fmt.Sprintf("%p|%v", r, nn)
		if !seenOut[k] {
			seenOut[k] = true
			out = append(out, Outcome{r, nn})
		}
	}
	// run the instructions of s.b (from index i) updating the cells; reports (reached at, blocked)
	run := func(s *state, i int) (bool, bool) {
		for ; i < len(s.b.Instrs); i++ {
			in := s.b.Instrs[i]
			if in == at {
				record(s)
				return true, false
			}
			if avoid != nil && avoid(in) {
				return false, true
			}
			if st, isSt := in.(*ssa.Store); isSt {
				if a, isA := st.Addr.(*ssa.Alloc); isA && private[a] {
					s.cells[a] = resolve(st.Val, s, 0)
				}
			}
		}
		return false, false
	}
	var truth func(x ssa.Value, s *state, d int) (bool, bool)
	truth = func(x ssa.Value, s *state, d int) (bool, bool) {
		if d > 4 {
			return false, false
		}
		x = resolve(x, s, 0)
		if u, isU := x.(*ssa.UnOp); isU && u.Op == token.NOT {
			t, known := truth(u.X, s, d+1)
			return !t, known
		}
		if t, has := s.facts[x]; has {
			return t, true
		}
		if c, isC := x.(*ssa.Const); isC && c.Value != nil {
			switch c.Value.String() {
			case "true":
				return true, true
			case "false":
				return false, true
			}
		}
		if b, isB := x.(*ssa.BinOp); isB && (b.Op == token.EQL || b.Op == token.NEQ) {
			var o ssa.Value
			if IsNilConst(b.Y) {
				o = b.X
			} else if IsNilConst(b.X) {
				o = b.Y
			}
			if o != nil {
				ro := resolve(o, s, 0)
				if isNil, has := s.nils[ro]; has {
					return isNil == (b.Op == token.EQL), true
				}
				switch NilnessAt(ro, nil) {
				case NonNil:
					return b.Op == token.NEQ, true
				case IsNil:
					return b.Op == token.EQL, true
				}
			}
		}
		return false, false
	}
	seen := map[string]bool{}
	var work []*state
	step := func(s *state) {
		succs := s.b.Succs
		var iff *ssa.If
		if len(succs) == 2 {
			iff, _ = s.b.Instrs[len(s.b.Instrs)-1].(*ssa.If)
		}
		for idx, t := range succs {
			if iff != nil && succs[0] != succs[1] {
				if tv, known := truth(iff.Cond, s, 0); known && tv != (idx == 0) {
					continue
				}
			}
			n := clone(s)
			n.b, n.pred = t, s.b
			pi := predIndex(t, s.b)
			for _, ph := range byBlock[t] {
				if pi >= 0 && pi < len(ph.Edges) {
					n.env[ph] = resolve(ph.Edges[pi], s, 0)
				}
			}
			for k := range n.facts {
				if in, isIn := k.(ssa.Instruction); isIn && in.Block() == t {
					delete(n.facts, k)
				}
			}
			if iff != nil && succs[0] != succs[1] {
				c := resolve(iff.Cond, s, 0)
				neg := false
				for k := 0; k < 3; k++ {
					if u, isU := c.(*ssa.UnOp); isU && u.Op == token.NOT {
						c, neg = resolve(u.X, s, 0), !neg
					}
				}
				tv := (idx == 0) != neg
				if _, isC := c.(*ssa.Const); !isC {
					n.facts[c] = tv
				}
				if b, isB := c.(*ssa.BinOp); isB && (b.Op == token.EQL || b.Op == token.NEQ) {
					var o ssa.Value
					if IsNilConst(b.Y) {
						o = b.X
					} else if IsNilConst(b.X) {
						o = b.Y
					}
					if o != nil {
						n.nils[resolve(o, s, 0)] = tv == (b.Op == token.EQL)
					}
				}
			}
			k := fmt.Sprintf("%d|%s", t.Index, fp(n))
			if seen[k] {
				continue
			}
			seen[k] = true
			work = append(work, n)
		}
	}
	start := &state{b: fn.Blocks[0], env: map[*ssa.Phi]ssa.Value{}, cells: map[*ssa.Alloc]ssa.Value{}, nils: map[ssa.Value]bool{}, facts: map[ssa.Value]bool{}}
	if reached, blocked := run(start, 0); !reached && !blocked {
		step(start)
	}
	for n := 0; len(work) > 0; n++ {
		if n > 60000 {
			return out, false
		}
		s := work[len(work)-1]
		work = work[:len(work)-1]
		if reached, blocked := run(s, 0); reached || blocked {
			continue
		}
		step(s)
	}
	return out, true
}
