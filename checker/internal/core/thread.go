package core

import (
	"go/constant"
	"go/token"

	"golang.org/x/tools/go/ssa"
)

// Path-sensitivity of one step ("jump threading") for all CFG traversals.
//
// A block that tests a phi defined in that same block — the shape
//
//	err = phi [p1: nil, p2: make-error(...), p3: e]   ;   if err != nil goto A else B
//
// is produced whenever several returns of a helper are merged (by a programmer
// writing `err := f(); if err != nil`, by go/ssa's named-result spill, or by
// the checker's own helper inlining). On the path that enters through p1 the
// outcome of the test is known. A traversal that ignores this walks infeasible
// paths (p2 → B) and every "guarded by" / "checked before" question about code
// after the merge gets the wrong answer. The traversals in cfg.go therefore ask
// feasibleSuccs(b, pred) instead of reading b.Succs: only successors consistent
// with the value the phi takes on the edge pred→b are followed. Removing
// infeasible paths is sound for every query built on them (all are of the form
// "is there a path such that …").

type tri int8

const (
	triUnknown tri = iota
	triTrue
	triFalse
)

func (t tri) not() tri {
	switch t {
	case triTrue:
		return triFalse
	case triFalse:
		return triTrue
	}
	return triUnknown
}

// Nilness of a value as far as it is evident from the value itself or from the
// guards dominating block at.
type Nilness int8

const (
	NilUnknown Nilness = iota
	IsNil
	NonNil
)

// threadable reports whether b ends in an If whose condition depends on a phi
// of b (so that the outcome can differ per incoming edge).
func threadable(b *ssa.BasicBlock) bool {
	if len(b.Instrs) == 0 || len(b.Succs) != 2 || len(b.Preds) < 2 {
		return false
	}
	iff, ok := b.Instrs[len(b.Instrs)-1].(*ssa.If)
	if !ok {
		return false
	}
	return condUsesPhiOf(iff.Cond, b, 0)
}

func condUsesPhiOf(v ssa.Value, b *ssa.BasicBlock, depth int) bool {
	if depth > 4 {
		return false
	}
	switch x := v.(type) {
	case *ssa.Phi:
		return x.Block() == b
	case *ssa.UnOp:
		if x.Op == token.NOT {
			return condUsesPhiOf(x.X, b, depth+1)
		}
	case *ssa.BinOp:
		switch x.Op {
		case token.EQL, token.NEQ:
			return condUsesPhiOf(x.X, b, depth+1) || condUsesPhiOf(x.Y, b, depth+1)
		}
	case *ssa.ChangeInterface:
		return condUsesPhiOf(x.X, b, depth+1)
	}
	return false
}

// predIndex returns the index of pred among b.Preds (-1 if absent).
func predIndex(b, pred *ssa.BasicBlock) int {
	if pred == nil {
		return -1
	}
	for i, p := range b.Preds {
		if p == pred {
			return i
		}
	}
	return -1
}

type condKey struct {
	b  *ssa.BasicBlock
	pi int
}

var condCache = map[condKey]tri{}

// feasibleSuccs returns the successors of b that can be taken when b was
// entered from pred (nil: unknown). Two kinds of knowledge are used: the value
// a phi of b takes on the edge pred→b, and conditions that are decided by
// constants or by the guards dominating b (`if nil != nil`, a repeated test).
func feasibleSuccs(b, pred *ssa.BasicBlock) []*ssa.BasicBlock {
	if len(b.Succs) != 2 || len(b.Instrs) == 0 {
		return b.Succs
	}
	iff, ok := b.Instrs[len(b.Instrs)-1].(*ssa.If)
	if !ok {
		return b.Succs
	}
	pi := -1
	at := b
	if pred != nil && threadable(b) {
		pi = predIndex(b, pred)
		if pi >= 0 {
			at = pred
		}
	}
	k := condKey{b, pi}
	res, hit := condCache[k]
	if assumed != nil {
		res = evalCond(iff.Cond, b, pi, at, 0)
	} else if !hit {
		res = evalCond(iff.Cond, b, pi, at, 0)
		condCache[k] = res
	}
	switch res {
	case triTrue:
		return b.Succs[:1]
	case triFalse:
		return b.Succs[1:2]
	}
	return b.Succs
}

// FeasibleSuccs is feasibleSuccs for other packages.
func FeasibleSuccs(b, pred *ssa.BasicBlock) []*ssa.BasicBlock { return feasibleSuccs(b, pred) }

// subst resolves a phi of block b to its incoming value on edge pi.
func subst(v ssa.Value, b *ssa.BasicBlock, pi int) ssa.Value {
	for i := 0; i < 4; i++ {
		switch x := v.(type) {
		case *ssa.Phi:
			if x.Block() == b && pi >= 0 && pi < len(x.Edges) {
				return x.Edges[pi]
			}
			return v
		case *ssa.ChangeInterface:
			v = x.X
		default:
			return v
		}
	}
	return v
}

// assumed holds truth values assumed for boolean SSA values during
// ReachableFromEntryAssuming (nil otherwise).
var assumed map[ssa.Value]bool

func evalCond(v ssa.Value, b *ssa.BasicBlock, pi int, pred *ssa.BasicBlock, depth int) tri {
	if depth > 4 {
		return triUnknown
	}
	if assumed != nil {
		if t, ok := assumed[subst(v, b, pi)]; ok {
			if t {
				return triTrue
			}
			return triFalse
		}
	}
	switch x := v.(type) {
	case *ssa.Const:
		if x.Value != nil && x.Value.Kind() == constant.Bool {
			if constant.BoolVal(x.Value) {
				return triTrue
			}
			return triFalse
		}
	case *ssa.UnOp:
		if x.Op == token.NOT {
			return evalCond(x.X, b, pi, pred, depth+1).not()
		}
	case *ssa.Phi:
		if x.Block() == b && pi >= 0 {
			if c, ok := subst(x, b, pi).(*ssa.Const); ok && c.Value != nil && c.Value.Kind() == constant.Bool {
				if constant.BoolVal(c.Value) {
					return triTrue
				}
				return triFalse
			}
		}
	case *ssa.BinOp:
		if x.Op != token.EQL && x.Op != token.NEQ {
			return triUnknown
		}
		l, r := subst(x.X, b, pi), subst(x.Y, b, pi)
		res := triUnknown
		switch {
		case IsNilConst(l) || IsNilConst(r):
			other := l
			if IsNilConst(l) {
				other = r
			}
			switch NilnessAt(other, pred) {
			case IsNil:
				res = triTrue
			case NonNil:
				res = triFalse
			}
		default:
			lc, lok := l.(*ssa.Const)
			rc, rok := r.(*ssa.Const)
			if lok && rok && lc.Value != nil && rc.Value != nil && lc.Value.Kind() == rc.Value.Kind() {
				if constant.Compare(lc.Value, token.EQL, rc.Value) {
					res = triTrue
				} else {
					res = triFalse
				}
			}
		}
		if x.Op == token.NEQ {
			res = res.not()
		}
		return res
	}
	return triUnknown
}

// nonNilConstructors are external functions that never return a nil error /
// pointer in the result position that matters.
var nonNilConstructors = map[string]bool{
	"fmt.Errorf": true, "errors.New": true,
}

// NilnessAt reports whether v is evidently nil or non-nil at the end of block
// at (nil block: only what the value itself says).
func NilnessAt(v ssa.Value, at *ssa.BasicBlock) Nilness {
	return nilnessAt(v, at, 0, map[ssa.Value]bool{})
}

func nilnessAt(v ssa.Value, at *ssa.BasicBlock, depth int, seen map[ssa.Value]bool) Nilness {
	if v == nil || depth > 6 || seen[v] {
		return NilUnknown
	}
	seen[v] = true
	defer delete(seen, v)
	if lv := blockLocalLoad(v); lv != nil {
		return nilnessAt(lv, at, depth+1, seen)
	}
	switch x := v.(type) {
	case *ssa.Const:
		if IsNilConst(x) {
			return IsNil
		}
		return NilUnknown
	case *ssa.MakeInterface, *ssa.MakeClosure, *ssa.Alloc, *ssa.FieldAddr, *ssa.IndexAddr, *ssa.MakeMap, *ssa.MakeSlice, *ssa.MakeChan, *ssa.Function, *ssa.Global:
		return NonNil
	case *ssa.ChangeInterface:
		return nilnessAt(x.X, at, depth+1, seen)
	case *ssa.ChangeType:
		return nilnessAt(x.X, at, depth+1, seen)
	case *ssa.Phi:
		var all Nilness = NilUnknown
		for i, e := range x.Edges {
			var from *ssa.BasicBlock
			if i < len(x.Block().Preds) {
				from = x.Block().Preds[i]
			}
			n := nilnessAt(e, from, depth+1, seen)
			if n == NilUnknown {
				all = NilUnknown
				break
			}
			if i == 0 {
				all = n
			} else if all != n {
				all = NilUnknown
				break
			}
		}
		if all != NilUnknown {
			return all
		}
	case *ssa.Call:
		if n := callNilness(x, -1, depth, seen); n != NilUnknown {
			return n
		}
	case *ssa.Extract:
		if c, ok := x.Tuple.(*ssa.Call); ok {
			if n := callNilness(c, x.Index, depth, seen); n != NilUnknown {
				return n
			}
		}
	}
	// facts from dominating guards
	if at != nil {
		if n := guardNilness(v, at); n != NilUnknown {
			return n
		}
	}
	return NilUnknown
}

// callNilness: a static callee all of whose returns give an evidently non-nil
// (or nil) value in result position idx (-1: the single result).
func callNilness(c *ssa.Call, idx int, depth int, seen map[ssa.Value]bool) Nilness {
	callee := c.Call.StaticCallee()
	if callee == nil {
		return NilUnknown
	}
	if len(callee.Blocks) == 0 {
		if callee.Pkg != nil && nonNilConstructors[callee.Pkg.Pkg.Path()+"."+callee.Name()] {
			return NonNil
		}
		return NilUnknown
	}
	if depth > 3 {
		return NilUnknown
	}
	if idx < 0 {
		idx = 0
	}
	var all Nilness = NilUnknown
	first := true
	for _, ret := range Returns(callee) {
		if idx >= len(ret.Results) {
			return NilUnknown
		}
		n := nilnessAt(ret.Results[idx], ret.Block(), depth+2, seen)
		if n == NilUnknown {
			return NilUnknown
		}
		if first {
			all, first = n, false
		} else if all != n {
			return NilUnknown
		}
	}
	return all
}

// guardNilness looks for a dominating test of v against nil whose taken edge
// dominates block at (dominator-tree walk; no reachability query, so it can be
// used inside the traversals).
func guardNilness(v ssa.Value, at *ssa.BasicBlock) Nilness {
	for d := at; d != nil; d = d.Idom() {
		id := d.Idom()
		if id == nil || len(id.Instrs) == 0 || len(id.Succs) != 2 {
			continue
		}
		iff, ok := id.Instrs[len(id.Instrs)-1].(*ssa.If)
		if !ok {
			continue
		}
		// d must be entered only through one of id's two edges
		var branch int = -1
		if len(d.Preds) == 1 && d.Preds[0] == id {
			if id.Succs[0] == d && id.Succs[1] != d {
				branch = 0
			} else if id.Succs[1] == d && id.Succs[0] != d {
				branch = 1
			}
		}
		if branch < 0 {
			continue
		}
		cd := CondOf(iff.Cond)
		if cd.Op != token.EQL && cd.Op != token.NEQ {
			continue
		}
		var other ssa.Value
		switch {
		case sameNilSubject(cd.X, v):
			other = cd.Y
		case sameNilSubject(cd.Y, v):
			other = cd.X
		default:
			continue
		}
		if !IsNilConst(other) {
			continue
		}
		truth := branch == 0
		if cd.Neg {
			truth = !truth
		}
		isNil := truth
		if cd.Op == token.NEQ {
			isNil = !truth
		}
		if isNil {
			return IsNil
		}
		return NonNil
	}
	return NilUnknown
}

func sameNilSubject(a, b ssa.Value) bool {
	strip := func(v ssa.Value) ssa.Value {
		for i := 0; i < 3; i++ {
			if ci, ok := v.(*ssa.ChangeInterface); ok {
				v = ci.X
			} else {
				break
			}
		}
		return v
	}
	a, b = strip(a), strip(b)
	if a == b {
		return true
	}
	// two loads of one private local (a named result kept in memory because of a defer) with no
	// store to it between the tested load and the queried one
	la, ok1 := a.(*ssa.UnOp)
	lb, ok2 := b.(*ssa.UnOp)
	if !ok1 || !ok2 || la.Op != token.MUL || lb.Op != token.MUL || la.X != lb.X {
		return false
	}
	cell, ok := la.X.(*ssa.Alloc)
	if !ok || cell.Referrers() == nil {
		return false
	}
	for _, ref := range *cell.Referrers() {
		switch x := ref.(type) {
		case *ssa.UnOp:
		case *ssa.Store:
			if x.Val == ssa.Value(cell) {
				return false // the address escapes
			}
			if x.Addr == ssa.Value(cell) && rawReaches(la, x) && rawReaches(x, lb) {
				// a store of the very value that was loaded back (`*err = *err` before rundefers) changes nothing
				if ld, isLd := x.Val.(*ssa.UnOp); isLd && ld.Op == token.MUL && ld.X == ssa.Value(cell) {
					continue
				}
				return false
			}
		default:
			return false // captured or passed on
		}
	}
	return true
}

// walker is the shared worklist of all CFG traversals: states are (block, the
// predecessor it was entered from) for threadable blocks and plain blocks
// otherwise. A state also remembers the nearest threadable block upstream and
// the edge it was entered by, as long as the path since then ran through
// single-predecessor blocks only: a chain of tests on one merged value (a
// `switch kind {...}` on a phi, an `if`/`else if` ladder) is decided for every
// link, not just the first.
type walker struct {
	seen    map[[4]int]bool
	stack   []wstate
	blocked map[Edge]bool
}

type wstate struct {
	b, pred *ssa.BasicBlock
	ctxB    *ssa.BasicBlock // upstream block whose phis are known on this path
	ctxPi   int             // ... by the index of the edge it was entered from
}

func newWalker(blocked map[Edge]bool) *walker {
	return &walker{seen: map[[4]int]bool{}, blocked: blocked}
}

// push enters `to` from `from` (nil: a start state) unless the edge is blocked
// or the state was already visited.
func (w *walker) push(from, to *ssa.BasicBlock) {
	w.pushState(wstate{b: from}, to)
}

// pushState enters `to` from state s (s.b nil: a start state).
func (w *walker) pushState(s wstate, to *ssa.BasicBlock) {
	from := s.b
	if from != nil && w.blocked != nil && w.blocked[Edge{from.Index, to.Index}] {
		return
	}
	k := [4]int{to.Index, -1, -1, -1}
	n := wstate{b: to}
	if from != nil && threadable(to) {
		k[1] = predIndex(to, from)
		n.pred = from
	}
	if from != nil {
		w.inherit(&n, s, from, to)
		if n.ctxB != nil {
			k[2], k[3] = n.ctxB.Index, n.ctxPi
		}
	}
	if w.seen[k] {
		return
	}
	w.seen[k] = true
	w.stack = append(w.stack, n)
}

func (w *walker) pop() (wstate, bool) {
	if len(w.stack) == 0 {
		return wstate{}, false
	}
	s := w.stack[len(w.stack)-1]
	w.stack = w.stack[:len(w.stack)-1]
	return s, true
}

// succsOf returns the feasible successors of state s.
func succsOf(s wstate) []*ssa.BasicBlock {
	out := feasibleSuccs(s.b, s.pred)
	if len(out) < 2 || s.ctxB == nil || s.ctxPi < 0 || s.ctxPi >= len(s.ctxB.Preds) {
		return out
	}
	iff, ok := s.b.Instrs[len(s.b.Instrs)-1].(*ssa.If)
	if !ok || !condUsesPhiOf(iff.Cond, s.ctxB, 0) {
		return out
	}
	switch evalCond(iff.Cond, s.ctxB, s.ctxPi, s.ctxB.Preds[s.ctxPi], 0) {
	case triTrue:
		return s.b.Succs[:1]
	case triFalse:
		return s.b.Succs[1:2]
	}
	return out
}

// pushSuccs enters the feasible successors of s.
func (w *walker) pushSuccs(s wstate) {
	for _, t := range succsOf(s) {
		w.pushState(s, t)
	}
}

// ReachableFromEntryAssuming reports whether target can execute on some
// feasible path from the function entry when the given boolean SSA values are
// assumed to have the given truth values wherever they (or a phi that takes
// them on the incoming edge) decide a branch. It is shape-agnostic: the value
// may be tested directly, negated, or merged from a short-circuit expression.
func ReachableFromEntryAssuming(target ssa.Instruction, assume map[ssa.Value]bool) bool {
	fn := target.Parent()
	if fn == nil || len(fn.Blocks) == 0 {
		return false
	}
	return reachAssuming(fn.Blocks[0], true, target, assume)
}

// ReachesAssuming reports whether target can execute after instruction from
// (i.e. on a path on which from was evaluated) under the assumptions.
func ReachesAssuming(from, target ssa.Instruction, assume map[ssa.Value]bool) bool {
	if from.Parent() != target.Parent() {
		return false
	}
	if from.Block() == target.Block() && InstrIndex(from) < InstrIndex(target) {
		return true
	}
	return reachAssuming(from.Block(), false, target, assume)
}

// ReachableFromEntryAssumingAvoiding: is there a feasible path from the entry
// to target, under the assumptions, on which no instruction satisfying avoid
// executes before target?
func ReachableFromEntryAssumingAvoiding(target ssa.Instruction, assume map[ssa.Value]bool, avoid func(ssa.Instruction) bool) bool {
	fn := target.Parent()
	if fn == nil || len(fn.Blocks) == 0 {
		return false
	}
	old := assumed
	assumed = assume
	defer func() { assumed = old }()
	w := newWalker(nil)
	w.push(nil, fn.Blocks[0])
	for {
		x, ok := w.pop()
		if !ok {
			return false
		}
		blocked := false
		for _, in := range x.b.Instrs {
			if in == target {
				return true
			}
			if avoid(in) {
				blocked = true
				break
			}
		}
		if blocked {
			continue
		}
		for _, t := range succsAssuming(x) {
			w.pushStateAll(x, t)
		}
	}
}

func reachAssuming(start *ssa.BasicBlock, includeStart bool, target ssa.Instruction, assume map[ssa.Value]bool) bool {
	old := assumed
	assumed = assume
	defer func() { assumed = old }()
	w := newWalker(nil)
	w.push(nil, start)
	first := true
	for {
		x, ok := w.pop()
		if !ok {
			return false
		}
		if x.b == target.Block() && (includeStart || !first) {
			return true
		}
		first = false
		for _, t := range succsAssuming(x) {
			w.pushStateAll(x, t)
		}
	}
}

// succsAssuming: successors of a state under assumptions — per-predecessor
// evaluation for every block (a phi may carry an assumed value), then the
// chain context.
func succsAssuming(s wstate) []*ssa.BasicBlock {
	out := feasibleSuccsAssuming(s.b, s.pred)
	if len(out) < 2 || s.ctxB == nil || s.ctxPi < 0 || s.ctxPi >= len(s.ctxB.Preds) {
		return out
	}
	iff, ok := s.b.Instrs[len(s.b.Instrs)-1].(*ssa.If)
	if !ok || !condUsesPhiOf(iff.Cond, s.ctxB, 0) {
		return out
	}
	switch evalCond(iff.Cond, s.ctxB, s.ctxPi, s.ctxB.Preds[s.ctxPi], 0) {
	case triTrue:
		return s.b.Succs[:1]
	case triFalse:
		return s.b.Succs[1:2]
	}
	return out
}

// pushStateAll is pushState that records the predecessor for every block
// (needed under assumptions) and keeps the chain context.
func (w *walker) pushStateAll(s wstate, to *ssa.BasicBlock) {
	from := s.b
	k := [4]int{to.Index, predIndex(to, from), -1, -1}
	n := wstate{b: to, pred: from}
	if from != nil {
		w.inherit(&n, s, from, to)
		if n.ctxB != nil {
			k[2], k[3] = n.ctxB.Index, n.ctxPi
		}
	}
	if w.seen[k] {
		return
	}
	w.seen[k] = true
	w.stack = append(w.stack, n)
}

// inherit decides what the new state knows about an upstream merge:
//   - entering a block that merges a flag / enum from constants: that block
//     and the entering edge (valid until the block is entered again, wherever
//     the path goes in between);
//   - else, along a single-predecessor chain below a threadable block: that
//     block and the edge it was entered by;
//   - else what the previous state knew, if that was a flag / enum merge (or
//     the chain continues).
func (w *walker) inherit(n *wstate, s wstate, from, to *ssa.BasicBlock) {
	switch {
	case mergesConstants(to):
		n.ctxB, n.ctxPi = to, predIndex(to, from)
	case len(to.Preds) == 1 && s.pred != nil && len(from.Preds) >= 2 && !(s.ctxB != nil && mergesConstants(s.ctxB)):
		n.ctxB, n.ctxPi = from, predIndex(from, s.pred)
	case s.ctxB != nil && (mergesConstants(s.ctxB) || len(to.Preds) == 1):
		n.ctxB, n.ctxPi = s.ctxB, s.ctxPi
	}
	if n.ctxB != nil && n.ctxPi < 0 {
		n.ctxB = nil
	}
}

var mergeCache = map[*ssa.BasicBlock]bool{}

// mergesConstants: the block has a phi all of whose incoming values are
// constants (a flag or enum variable assigned on several arms).
func mergesConstants(b *ssa.BasicBlock) bool {
	if v, ok := mergeCache[b]; ok {
		return v
	}
	res := false
	if len(b.Preds) >= 2 {
		for _, in := range b.Instrs {
			ph, ok := in.(*ssa.Phi)
			if !ok {
				break
			}
			all := len(ph.Edges) > 0
			for _, e := range ph.Edges {
				if k, isK := e.(*ssa.Const); !isK || k.Value == nil {
					all = false
				}
			}
			if all {
				res = true
			}
		}
	}
	mergeCache[b] = res
	return res
}

// feasibleSuccsAssuming is feasibleSuccs with per-predecessor evaluation for
// every block (a phi may carry an assumed value).
func feasibleSuccsAssuming(b, pred *ssa.BasicBlock) []*ssa.BasicBlock {
	if len(b.Succs) != 2 || len(b.Instrs) == 0 {
		return b.Succs
	}
	iff, ok := b.Instrs[len(b.Instrs)-1].(*ssa.If)
	if !ok {
		return b.Succs
	}
	pi := predIndex(b, pred)
	at := b
	if pi >= 0 {
		at = pred
	}
	switch evalCond(iff.Cond, b, pi, at, 0) {
	case triTrue:
		return b.Succs[:1]
	case triFalse:
		return b.Succs[1:2]
	}
	return b.Succs
}

// blockLocalLoad resolves a load of a local variable that go/ssa keeps in
// memory (named results of functions with defers, captured variables) to the
// value stored by the nearest preceding store in the same block, provided no
// call lies between (a deferred closure or callee could write it). nil if v is
// not such a load.
func blockLocalLoad(v ssa.Value) ssa.Value {
	ld, ok := v.(*ssa.UnOp)
	if !ok || ld.Op != token.MUL {
		return nil
	}
	a, ok := ld.X.(*ssa.Alloc)
	if !ok {
		return nil
	}
	// can anything but this function's own loads and stores touch the variable?
	private := true
	if refs := a.Referrers(); refs != nil {
		for _, ref := range *refs {
			switch x := ref.(type) {
			case *ssa.Store:
				if x.Val == ssa.Value(a) {
					private = false // its address is stored somewhere
				}
			case *ssa.UnOp:
			default:
				private = false // bound by a closure, passed to a call, ...
			}
		}
	}
	b := ld.Block()
	idx := InstrIndex(ld)
	for i := idx - 1; i >= 0; i-- {
		switch x := b.Instrs[i].(type) {
		case *ssa.Store:
			if x.Addr == ssa.Value(a) {
				return x.Val
			}
		case ssa.CallInstruction:
			if !private {
				return nil
			}
		case *ssa.RunDefers:
			if !private {
				return nil
			}
		}
	}
	return nil
}

var liveCache = map[*ssa.Function][]bool{}

// LiveBlocks reports, per block index, whether the block can be reached from
// the entry on a feasible path (see feasibleSuccs). Phi edges from dead blocks
// carry no value.
func LiveBlocks(fn *ssa.Function) []bool {
	if l, ok := liveCache[fn]; ok {
		return l
	}
	var l []bool
	if len(fn.Blocks) > 0 {
		l = reachBlocks(fn, fn.Blocks[0], nil, nil)
	}
	liveCache[fn] = l
	return l
}

// LiveEdge reports whether the edge pred -> b can be taken on a feasible path.
func LiveEdge(pred, b *ssa.BasicBlock) bool {
	live := LiveBlocks(pred.Parent())
	if pred.Index >= len(live) || !live[pred.Index] {
		return false
	}
	// pred is live; the edge is dead when pred's branch is decided against b on every way into pred
	if len(pred.Preds) == 0 {
		for _, s := range feasibleSuccs(pred, nil) {
			if s == b {
				return true
			}
		}
		return false
	}
	for _, pp := range pred.Preds {
		if !live[pp.Index] {
			continue
		}
		for _, s := range feasibleSuccs(pred, pp) {
			if s == b {
				return true
			}
		}
	}
	return false
}

// BlockLocalLoad is blockLocalLoad for the rules (v itself when it is not such a load).
func BlockLocalLoad(v ssa.Value) ssa.Value {
	for i := 0; i < 3; i++ {
		lv := blockLocalLoad(v)
		if lv == nil {
			return v
		}
		v = lv
	}
	return v
}

// SimplifyPhis replaces, in every given function, each phi that takes one
// single value on all its feasible incoming edges (see LiveEdge) by that value
// — the edges it could differ on are never taken. After helper expansion this
// is what is left of `x, err := h(); if err != nil { return }`: the variable
// assigned on the error arms merges at the join, but those arms have returned.
// The SSA form is edited in place (operands and referrer lists); the phi stays
// in its block, unused. Returns the number of phis replaced.
func SimplifyPhis(fns []*ssa.Function) int {
	total := 0
	for _, fn := range fns {
		for round := 0; round < 8; round++ {
			n := 0
			for _, b := range fn.Blocks {
				for _, in := range b.Instrs {
					ph, ok := in.(*ssa.Phi)
					if !ok {
						break
					}
					refs := ph.Referrers()
					if refs == nil || len(*refs) == 0 {
						continue
					}
					var val ssa.Value
					single := true
					liveEdges := 0
					for i, e := range ph.Edges {
						if i >= len(b.Preds) || !LiveEdge(b.Preds[i], b) {
							continue
						}
						liveEdges++
						if e == ssa.Value(ph) {
							continue
						}
						if val == nil {
							val = e
						} else if val != e {
							single = false
						}
					}
					if !single || val == nil || liveEdges == len(ph.Edges) && false {
						continue
					}
					// all live edges agree; if every edge is live and they agree go/ssa would have removed
					// the phi already, so this one exists because of a dead edge
					for _, u := range *refs {
						for _, op := range u.Operands(nil) {
							if *op == ssa.Value(ph) {
								*op = val
							}
						}
						if vr := val.Referrers(); vr != nil {
							*vr = append(*vr, u)
						}
					}
					*refs = nil
					n++
				}
			}
			total += n
			if n == 0 {
				break
			}
		}
	}
	if total > 0 {
		// decisions cached per block stay valid (the replaced values are equal on every feasible path)
		// but may be sharper now
		condCache = map[condKey]tri{}
		liveCache = map[*ssa.Function][]bool{}
	}
	return total
}

// rawReaches: b can execute after a along plain CFG edges (no feasibility
// pruning — usable from inside the condition evaluation, which the pruned
// traversals themselves call).
func rawReaches(a, b ssa.Instruction) bool {
	if a.Parent() != b.Parent() || a.Block() == nil || b.Block() == nil {
		return false
	}
	if a.Block() == b.Block() && InstrIndex(a) < InstrIndex(b) {
		return true
	}
	seen := map[*ssa.BasicBlock]bool{}
	work := append([]*ssa.BasicBlock{}, a.Block().Succs...)
	for len(work) > 0 {
		x := work[len(work)-1]
		work = work[:len(work)-1]
		if seen[x] {
			continue
		}
		seen[x] = true
		if x == b.Block() {
			return true
		}
		work = append(work, x.Succs...)
	}
	return false
}
