package oblig

import (
	"go/constant"
	"go/token"
	"go/types"
	"strings"

	"golang.org/x/tools/go/ssa"

	"gfs3check/internal/core"
)

// Ctx carries memoised helpers.
type Ctx struct {
	P         *core.Program
	mayStore  map[*ssa.Function]map[string]bool
	factCache map[ssa.Instruction][]Fact
	// NonNilHook lets the rules vouch for values that are non-nil by a
	// repository invariant they check themselves (container homogeneity).
	NonNilHook func(v ssa.Value) bool
}

func NewCtx(p *core.Program) *Ctx {
	return &Ctx{P: p, mayStore: map[*ssa.Function]map[string]bool{}, factCache: map[ssa.Instruction][]Fact{}}
}

// Fact is a comparison known to hold when an instruction executes, or the
// truth value of a boolean call.
type Fact struct {
	Op    token.Token // EQL NEQ LSS LEQ GTR GEQ ; ILLEGAL for boolean facts
	X, Y  ssa.Value
	Bool  ssa.Value // boolean value known to be Truth
	Truth bool
	If    *ssa.If
}

func negate(op token.Token) token.Token {
	switch op {
	case token.EQL:
		return token.NEQ
	case token.NEQ:
		return token.EQL
	case token.LSS:
		return token.GEQ
	case token.GEQ:
		return token.LSS
	case token.GTR:
		return token.LEQ
	case token.LEQ:
		return token.GTR
	}
	return token.ILLEGAL
}

func flip(op token.Token) token.Token { // a op b  ==  b flip(op) a
	switch op {
	case token.LSS:
		return token.GTR
	case token.GTR:
		return token.LSS
	case token.LEQ:
		return token.GEQ
	case token.GEQ:
		return token.LEQ
	}
	return op
}

// FactsAt returns the branch facts that hold whenever in executes.
func (c *Ctx) FactsAt(in ssa.Instruction) []Fact {
	if f, ok := c.factCache[in]; ok {
		return f
	}
	var out []Fact
	var add func(cond ssa.Value, truth bool, iff *ssa.If, d int)
	add = func(cond ssa.Value, truth bool, iff *ssa.If, d int) {
		cd := core.CondOf(cond)
		if cd.Neg {
			truth = !truth
		}
		if cd.Op != token.ILLEGAL && cd.Op != 0 {
			op := cd.Op
			if !truth {
				op = negate(op)
			}
			out = append(out, Fact{Op: op, X: core.Forward(cd.X), Y: core.Forward(cd.Y), If: iff})
			return
		}
		out = append(out, Fact{Bool: cd.X, Truth: truth, If: iff})
		// a boolean merged from a short-circuit expression or a flag variable:
		// phi [const..., V]. If the required truth value can only come from the
		// one non-constant edge, V had that value.
		if ph, ok := cd.X.(*ssa.Phi); ok && d < 4 {
			var cand ssa.Value
			n := 0
			for _, e := range ph.Edges {
				if k, isK := e.(*ssa.Const); isK && k.Value != nil && k.Value.Kind() == constant.Bool {
					if constant.BoolVal(k.Value) == truth {
						n = 2 // the value can also come from a constant edge: nothing follows
					}
					continue
				}
				n++
				cand = e
			}
			if n == 1 && cand != nil {
				add(cand, truth, iff, d+1)
			}
		}
	}
	for _, g := range core.GuardsOf(in) {
		add(g.If.Cond, g.Branch, g.If, 0)
	}
	c.factCache[in] = out
	return out
}

// constInt returns v's integer constant value.
func constInt(v ssa.Value) (int64, bool) {
	for {
		switch x := v.(type) {
		case *ssa.Convert:
			if isIntType(x.Type()) && isIntType(x.X.Type()) {
				v = x.X
				continue
			}
			return 0, false
		case *ssa.Const:
			if x.Value != nil && x.Value.Kind() == constant.Int {
				if i, ok := constant.Int64Val(x.Value); ok {
					return i, true
				}
			}
			return 0, false
		}
		return 0, false
	}
}

func isIntType(t types.Type) bool {
	b, ok := t.Underlying().(*types.Basic)
	return ok && b.Info()&types.IsInteger != 0
}

// isLenOf reports whether v is len(x') (or cap) for some x' equivalent to x.
func (c *Ctx) isLenOf(v, x ssa.Value, at ssa.Instruction) bool {
	v = stripIntConv(v)
	call, ok := v.(*ssa.Call)
	if !ok {
		return false
	}
	b, ok := call.Call.Value.(*ssa.Builtin)
	if !ok || b.Name() != "len" || len(call.Call.Args) != 1 {
		return false
	}
	return c.Equiv(call.Call.Args[0], x)
}

func stripIntConv(v ssa.Value) ssa.Value {
	for {
		cv, ok := v.(*ssa.Convert)
		if !ok || !isIntType(cv.Type()) || !isIntType(cv.X.Type()) {
			return v
		}
		// widening or same-size conversions only
		v = cv.X
	}
}

// Equiv reports whether a and b denote the same value: identical SSA values,
// identical pure operations on equivalent operands, or loads of the same
// field/variable with no intervening store ("load equivalence": go/ssa does no
// common-subexpression elimination).
func (c *Ctx) Equiv(a, b ssa.Value) bool { return c.equiv(a, b, 0) }

func (c *Ctx) equiv(a, b ssa.Value, d int) bool {
	if a == b {
		return true
	}
	if a == nil || b == nil || d > 6 {
		return false
	}
	// a value that only passed through a field of a fresh local struct is that value
	if d == 0 {
		if fa, fb := core.Forward(a), core.Forward(b); fa != a || fb != b {
			if c.equiv(fa, fb, d+1) {
				return true
			}
		}
	}
	switch x := a.(type) {
	case *ssa.Const:
		y, ok := b.(*ssa.Const)
		if !ok || x.Value == nil || y.Value == nil {
			return false
		}
		return constant.Compare(x.Value, token.EQL, y.Value) && types.Identical(x.Type(), y.Type())
	case *ssa.Field:
		y, ok := b.(*ssa.Field)
		return ok && x.Field == y.Field && c.equiv(x.X, y.X, d+1)
	case *ssa.Convert:
		y, ok := b.(*ssa.Convert)
		return ok && types.Identical(x.Type(), y.Type()) && c.equiv(x.X, y.X, d+1)
	case *ssa.ChangeType:
		y, ok := b.(*ssa.ChangeType)
		return ok && types.Identical(x.Type(), y.Type()) && c.equiv(x.X, y.X, d+1)
	case *ssa.BinOp:
		y, ok := b.(*ssa.BinOp)
		return ok && x.Op == y.Op && c.equiv(x.X, y.X, d+1) && c.equiv(x.Y, y.Y, d+1)
	case *ssa.Extract:
		y, ok := b.(*ssa.Extract)
		return ok && x.Index == y.Index && x.Tuple == y.Tuple
	case *ssa.Call:
		y, ok := b.(*ssa.Call)
		if !ok {
			return false
		}
		bx, ok1 := x.Call.Value.(*ssa.Builtin)
		by, ok2 := y.Call.Value.(*ssa.Builtin)
		if ok1 && ok2 && bx.Name() == by.Name() && (bx.Name() == "len" || bx.Name() == "cap") &&
			len(x.Call.Args) == 1 && len(y.Call.Args) == 1 {
			return c.equiv(x.Call.Args[0], y.Call.Args[0], d+1)
		}
		return false
	case *ssa.UnOp:
		y, ok := b.(*ssa.UnOp)
		if !ok || x.Op != y.Op {
			return false
		}
		if x.Op != token.MUL {
			return c.equiv(x.X, y.X, d+1)
		}
		return c.loadEquiv(x, y, d)
	}
	return false
}

// loadEquiv: two loads read the same location and no write to it can happen
// between them.
func (c *Ctx) loadEquiv(x, y *ssa.UnOp, d int) bool {
	if x.Parent() != y.Parent() {
		return false
	}
	switch ax := x.X.(type) {
	case *ssa.FieldAddr:
		ay, ok := y.X.(*ssa.FieldAddr)
		if !ok || ax.Field != ay.Field || !c.equiv(ax.X, ay.X, d+1) {
			return false
		}
		fname := c.P.FieldName(ax)
		return !c.killedBetween(x, y, func(in ssa.Instruction) bool { return c.killsField(in, fname, ax.X) })
	case *ssa.Alloc:
		if y.X != ssa.Value(ax) {
			return false
		}
		return !c.killedBetween(x, y, func(in ssa.Instruction) bool {
			if st, ok := in.(*ssa.Store); ok && st.Addr == ssa.Value(ax) {
				return true
			}
			if ci, ok := in.(ssa.CallInstruction); ok {
				for _, a := range core.Args(ci) {
					if a == ssa.Value(ax) {
						return true
					}
				}
				// a closure capturing the variable may assign it
				if capturesAlloc(ci, ax) {
					return true
				}
			}
			return false
		})
	case *ssa.FreeVar:
		// captured variable: same variable, never assigned inside this closure,
		// and no call in between that could run the assigning parent code
		if y.X != ssa.Value(ax) {
			return false
		}
		if refs := ax.Referrers(); refs != nil {
			for _, r := range *refs {
				if st, ok := r.(*ssa.Store); ok && st.Addr == ssa.Value(ax) {
					return false
				}
			}
		}
		return true
	case *ssa.Parameter, *ssa.Global:
		return false
	}
	return false
}

func capturesAlloc(ci ssa.CallInstruction, a *ssa.Alloc) bool {
	for _, arg := range core.Args(ci) {
		if mc, ok := arg.(*ssa.MakeClosure); ok {
			for _, b := range mc.Bindings {
				if b == ssa.Value(a) {
					return true
				}
			}
		}
	}
	if mc, ok := ci.Common().Value.(*ssa.MakeClosure); ok {
		for _, b := range mc.Bindings {
			if b == ssa.Value(a) {
				return true
			}
		}
	}
	return false
}

// killedBetween: some kill instruction lies on a path between the two loads
// (in either order).
func (c *Ctx) killedBetween(x, y ssa.Instruction, kill func(ssa.Instruction) bool) bool {
	fn := x.Parent()
	var kills []ssa.Instruction
	core.Instrs(fn, func(in ssa.Instruction) {
		if kill(in) {
			kills = append(kills, in)
		}
	})
	for _, k := range kills {
		if core.Reaches(x, k) && core.Reaches(k, y) {
			return true
		}
		if core.Reaches(y, k) && core.Reaches(k, x) {
			return true
		}
	}
	return false
}

// killsField: the instruction may write the named field.
func (c *Ctx) killsField(in ssa.Instruction, fname string, base ssa.Value) bool {
	switch x := in.(type) {
	case *ssa.Store:
		if fa, ok := x.Addr.(*ssa.FieldAddr); ok && c.P.FieldName(fa) == fname {
			return true
		}
	case ssa.CallInstruction:
		if cal := core.StaticCallee(x); cal != nil && c.P.IsRepo(cal) {
			return c.funcMayStore(cal, fname, 0)
		}
		// unknown callee that receives the base pointer or its address
		for _, a := range core.Args(x) {
			if a == base {
				if _, isAlloc := base.(*ssa.Alloc); isAlloc {
					return true
				}
			}
		}
		// dynamic repo calls: resolved conservatively by name of field writers
		if x.Common().IsInvoke() || core.StaticCallee(x) == nil {
			if _, isBuiltin := x.Common().Value.(*ssa.Builtin); isBuiltin {
				return false
			}
			// may call back into the repo: any repo function storing the field
			// outside a fresh allocation is a potential writer
			return c.anyWriterOutsideConstruction(fname) && c.dynamicMayReachRepo(x)
		}
	}
	return false
}

func (c *Ctx) dynamicMayReachRepo(x ssa.CallInstruction) bool {
	cg := c.P.CallGraph()
	n := cg.Nodes[x.Parent()]
	if n == nil {
		return true
	}
	for _, e := range n.Out {
		if e.Site == x && c.P.IsRepo(e.Callee.Func) {
			return true
		}
	}
	return false
}

func (c *Ctx) anyWriterOutsideConstruction(fname string) bool {
	for _, st := range c.P.FieldStores(fname) {
		if fa, ok := st.Addr.(*ssa.FieldAddr); ok {
			if _, fresh := fa.X.(*ssa.Alloc); !fresh {
				return true
			}
		}
	}
	return false
}

func (c *Ctx) funcMayStore(fn *ssa.Function, fname string, depth int) bool {
	if m, ok := c.mayStore[fn]; ok {
		if v, ok := m[fname]; ok {
			return v
		}
	} else {
		c.mayStore[fn] = map[string]bool{}
	}
	c.mayStore[fn][fname] = false // cycle guard
	res := false
	for _, f := range core.Closures(fn) {
		core.Instrs(f, func(in ssa.Instruction) {
			if res {
				return
			}
			switch x := in.(type) {
			case *ssa.Store:
				if fa, ok := x.Addr.(*ssa.FieldAddr); ok && c.P.FieldName(fa) == fname {
					res = true
				}
			case ssa.CallInstruction:
				if cal := core.StaticCallee(x); cal != nil && c.P.IsRepo(cal) && depth < 6 {
					if c.funcMayStore(cal, fname, depth+1) {
						res = true
					}
				}
			}
		})
	}
	c.mayStore[fn][fname] = res
	return res
}

// LowerBound returns a constant c such that v >= c holds at `at` (ok=false if
// none is known). It uses dominating guards, the shape of v (len ≥ 0,
// constants, v = u + k) and simple induction variables.
func (c *Ctx) LowerBound(v ssa.Value, at ssa.Instruction) (int64, bool) {
	return c.lowerBound(core.Forward(v), at, 0)
}

// edgeFact returns the fact established by taking the edge pred→succ when pred
// ends in an If with distinct successors.
func (c *Ctx) edgeFact(pred, succ *ssa.BasicBlock) (Fact, bool) {
	if len(pred.Instrs) == 0 || len(pred.Succs) != 2 || pred.Succs[0] == pred.Succs[1] {
		return Fact{}, false
	}
	iff, ok := pred.Instrs[len(pred.Instrs)-1].(*ssa.If)
	if !ok {
		return Fact{}, false
	}
	branch := pred.Succs[0] == succ
	cd := core.CondOf(iff.Cond)
	truth := branch
	if cd.Neg {
		truth = !truth
	}
	if cd.Op != token.ILLEGAL && cd.Op != 0 {
		op := cd.Op
		if !truth {
			op = negate(op)
		}
		return Fact{Op: op, X: cd.X, Y: cd.Y, If: iff}, true
	}
	return Fact{Bool: cd.X, Truth: truth, If: iff}, true
}

func (c *Ctx) lowerBound(v ssa.Value, at ssa.Instruction, d int) (int64, bool) {
	return c.lowerBoundX(v, at, d, nil)
}

func (c *Ctx) lowerBoundX(v ssa.Value, at ssa.Instruction, d int, extra []Fact) (int64, bool) {
	if d > 5 {
		return 0, false
	}
	best, have := int64(0), false
	upd := func(x int64) {
		if !have || x > best {
			best, have = x, true
		}
	}
	if k, ok := constInt(v); ok {
		return k, true
	}
	sv := stripIntConv(v)
	if call, ok := sv.(*ssa.Call); ok {
		if b, ok := call.Call.Value.(*ssa.Builtin); ok && (b.Name() == "len" || b.Name() == "cap") {
			upd(0)
		}
		// library post-condition: the search functions return -1 or an offset
		if f := call.Call.StaticCallee(); f != nil && f.Pkg != nil && (f.Pkg.Pkg.Path() == "strings" || f.Pkg.Pkg.Path() == "bytes") &&
			(strings.HasPrefix(f.Name(), "Index") || strings.HasPrefix(f.Name(), "LastIndex")) {
			upd(-1)
		}
	}
	facts := append(append([]Fact{}, c.FactsAt(at)...), extra...)
	for _, f := range facts {
		if f.Op == token.ILLEGAL || f.Op == 0 {
			continue
		}
		x, y, op := f.X, f.Y, f.Op
		if c.Equiv(stripIntConv(y), sv) {
			x, y, op = y, x, flip(op)
		} else if !c.Equiv(stripIntConv(x), sv) {
			continue
		}
		k, ok := constInt(y)
		if !ok {
			// v > w or v >= w with w having a lower bound
			if lb, ok := c.lowerBound(y, at, d+1); ok {
				switch op {
				case token.GTR:
					upd(lb + 1)
				case token.GEQ, token.EQL:
					upd(lb)
				}
			}
			continue
		}
		switch op {
		case token.GTR:
			upd(k + 1)
		case token.GEQ, token.EQL:
			upd(k)
		}
	}
	// v >= k and v != k give v >= k+1 (`idx != -1` after a search)
	for round := 0; round < 2 && have; round++ {
		for _, f := range facts {
			if f.Op != token.NEQ {
				continue
			}
			x, y := f.X, f.Y
			if c.Equiv(stripIntConv(y), sv) {
				x, y = y, x
			} else if !c.Equiv(stripIntConv(x), sv) {
				continue
			}
			if k, ok := constInt(y); ok && k == best {
				upd(k + 1)
			}
		}
	}
	switch x := sv.(type) {
	case *ssa.BinOp:
		if x.Op == token.ADD {
			// v + k ≥ lb(v) + k only if the addition cannot wrap: v must be bounded above where the sum
			// is used (`marker + 1` with marker == MaxInt64 is negative)
			if k, ok := constInt(x.Y); ok && k >= 0 {
				if lb, ok := c.lowerBound(x.X, at, d+1); ok && (k == 0 || c.boundedAbove(x.X, at)) {
					upd(lb + k)
				}
			} else if k, ok := constInt(x.X); ok && k >= 0 {
				if lb, ok := c.lowerBound(x.Y, at, d+1); ok && (k == 0 || c.boundedAbove(x.Y, at)) {
					upd(lb + k)
				}
			}
		}
	case *ssa.Phi:
		// induction: all edges are constants/bounded inits or self + positive const
		lo, ok := c.phiLower(x, at, d)
		if ok {
			upd(lo)
		}
	}
	return best, have
}

// boundedAbove: a dominating guard states v < y or v <= y for some y that is a
// length, a capacity or a constant well below the integer limit — or v is
// itself such a value (a len, a small constant, a loop counter compared with
// one): v + small constant does not wrap.
func (c *Ctx) boundedAbove(v ssa.Value, at ssa.Instruction) bool {
	sv := stripIntConv(v)
	small := func(y ssa.Value) bool {
		y = stripIntConv(y)
		if k, ok := constInt(y); ok {
			return k < 1<<62
		}
		if call, ok := y.(*ssa.Call); ok && (isBuiltin(call, "len") || isBuiltin(call, "cap")) {
			return true
		}
		if b, ok := y.(*ssa.BinOp); ok && (b.Op == token.SUB || b.Op == token.ADD) {
			if call, ok := stripIntConv(b.X).(*ssa.Call); ok && (isBuiltin(call, "len") || isBuiltin(call, "cap")) {
				if _, isK := constInt(b.Y); isK {
					return true
				}
			}
		}
		return false
	}
	if small(sv) {
		return true
	}
	switch x := sv.(type) {
	case *ssa.Phi:
		// a counter: every value that flows in is bounded where it flows in — a small constant or a
		// length, or a value that reaches the merge only past a guard `value < y` (the loop test)
		all := len(x.Edges) > 0
		for i, e := range x.Edges {
			if small(e) {
				continue
			}
			okEdge := false
			if i < len(x.Block().Preds) {
				pred := x.Block().Preds[i]
				se := stripIntConv(e)
				for _, f := range c.FactsAt(pred.Instrs[len(pred.Instrs)-1]) {
					if f.Op == token.ILLEGAL || f.Op == 0 {
						continue
					}
					a, b, op := f.X, f.Y, f.Op
					if c.Equiv(stripIntConv(b), se) {
						a, b, op = b, a, flip(op)
					} else if !c.Equiv(stripIntConv(a), se) {
						continue
					}
					_ = a
					if op == token.LSS || ((op == token.LEQ || op == token.EQL) && small(b)) {
						okEdge = true
					}
				}
			}
			if !okEdge {
				all = false
			}
		}
		if all {
			return true
		}
	case *ssa.Call:
		// Index / strconv results and the like are bounded by their inputs' lengths
		if callee := x.Call.StaticCallee(); callee != nil && callee.Pkg != nil {
			switch callee.Pkg.Pkg.Path() {
			case "strings", "bytes", "sort", "unicode/utf8":
				return true
			}
		}
	}
	for _, f := range c.FactsAt(at) {
		if f.Op == token.ILLEGAL || f.Op == 0 {
			continue
		}
		a, b, op := f.X, f.Y, f.Op
		if c.Equiv(stripIntConv(b), sv) {
			a, b, op = b, a, flip(op)
		} else if !c.Equiv(stripIntConv(a), sv) {
			continue
		}
		_ = a
		if (op == token.LSS || op == token.LEQ || op == token.EQL) && small(b) {
			return true
		}
		if op == token.LSS {
			return true // strictly below some int: at most MaxInt-1
		}
	}
	return false
}

// phiLower: φ(init..., φ+c) with c ≥ 0 has the minimum lower bound of its
// non-self edges; the lower bound of an init edge is evaluated at the end of
// the predecessor block it comes from.
func (c *Ctx) phiLower(phi *ssa.Phi, at ssa.Instruction, d int) (int64, bool) {
	lo, have := int64(0), false
	for i, e := range phi.Edges {
		if c.isSelfPlus(e, phi, 0) {
			continue
		}
		pred := phi.Block().Preds[i]
		if !core.LiveEdge(pred, phi.Block()) {
			continue // no feasible path takes this edge (e.g. after a return-on-error that always fires)
		}
		term := pred.Instrs[len(pred.Instrs)-1]
		var extra []Fact
		if ef, ok := c.edgeFact(pred, phi.Block()); ok {
			extra = append(extra, ef)
		}
		lb, ok := c.lowerBoundX(e, term, d+1, extra)
		if !ok {
			return 0, false
		}
		if !have || lb < lo {
			lo, have = lb, true
		}
	}
	return lo, have
}

// isSelfPlus: v == phi + k (k ≥ 0), possibly through other phis of the same
// loop that themselves only merge phi + k values.
func (c *Ctx) isSelfPlus(v ssa.Value, phi *ssa.Phi, d int) bool {
	if d > 4 {
		return false
	}
	if v == ssa.Value(phi) {
		return true
	}
	switch x := v.(type) {
	case *ssa.BinOp:
		if x.Op == token.ADD {
			if k, ok := constInt(x.Y); ok && k >= 0 {
				return c.isSelfPlus(x.X, phi, d+1)
			}
			if k, ok := constInt(x.X); ok && k >= 0 {
				return c.isSelfPlus(x.Y, phi, d+1)
			}
		}
	case *ssa.Phi:
		for _, e := range x.Edges {
			if !c.isSelfPlus(e, phi, d+1) {
				return false
			}
		}
		return true
	}
	return false
}

// LessThanLen reports whether v < len(x) holds at `at` by a dominating guard
// (v < L, v <= L-1, L > v ... where L is len(x) possibly saved in a variable
// while x's storage is not rewritten), returning the guard used.
func (c *Ctx) LessThanLen(v, x ssa.Value, at ssa.Instruction, strict bool) bool {
	sv := stripIntConv(v)
	for _, f := range c.FactsAt(at) {
		if f.Op == token.ILLEGAL || f.Op == 0 {
			continue
		}
		a, b, op := f.X, f.Y, f.Op
		if c.Equiv(stripIntConv(b), sv) {
			a, b, op = b, a, flip(op)
		} else if !c.Equiv(stripIntConv(a), sv) {
			continue
		}
		_ = a
		// now: v op b
		if c.isLenOf(b, x, at) {
			if op == token.LSS || (!strict && op == token.LEQ) {
				return true
			}
		}
	}
	return false
}

// Holds reports whether "a op b" is directly stated by a dominating guard at
// `at` (modulo operand order and value equivalence).
func (c *Ctx) Holds(at ssa.Instruction, a ssa.Value, op token.Token, b ssa.Value) bool {
	sa, sb := stripIntConv(a), stripIntConv(b)
	for _, f := range c.FactsAt(at) {
		if f.Op == token.ILLEGAL || f.Op == 0 {
			continue
		}
		fx, fy := stripIntConv(f.X), stripIntConv(f.Y)
		if c.Equiv(fx, sa) && c.Equiv(fy, sb) && implies(f.Op, op) {
			return true
		}
		if c.Equiv(fx, sb) && c.Equiv(fy, sa) && implies(flip(f.Op), op) {
			return true
		}
	}
	return false
}

// implies: (x have y) ⇒ (x want y)
func implies(have, want token.Token) bool {
	if have == want {
		return true
	}
	switch want {
	case token.LEQ:
		return have == token.LSS || have == token.EQL
	case token.GEQ:
		return have == token.GTR || have == token.EQL
	case token.NEQ:
		return have == token.LSS || have == token.GTR
	}
	return false
}

// EdgeFact is the exported form of edgeFact.
func (c *Ctx) EdgeFact(pred, succ *ssa.BasicBlock) (Fact, bool) { return c.edgeFact(pred, succ) }

// LowerBoundWith is LowerBound with additional facts assumed.
func (c *Ctx) LowerBoundWith(v ssa.Value, at ssa.Instruction, extra []Fact) (int64, bool) {
	return c.lowerBoundX(v, at, 0, extra)
}
