package oblig

import (
	"go/token"
	"go/types"
	"sort"
	"strings"

	"golang.org/x/tools/go/ssa"

	"gfs3check/internal/core"
)

// Result of trying to discharge one bounds site.
type Result struct {
	OK     bool
	Rule   string // which discharge rule applied
	Detail string
}

// parts of an index/slice instruction
func operands(in ssa.Instruction) (x, idx, lo, hi ssa.Value, isSlice bool) {
	switch v := in.(type) {
	case *ssa.IndexAddr:
		return v.X, v.Index, nil, nil, false
	case *ssa.Index:
		return v.X, v.Index, nil, nil, false
	case *ssa.Lookup:
		return v.X, v.Index, nil, nil, false
	case *ssa.Slice:
		return v.X, nil, v.Low, v.High, true
	}
	return nil, nil, nil, nil, false
}

// splitCall: x is the result of strings.Split/SplitN/Fields-like calls with a
// guaranteed minimum length.
func (c *Ctx) minLenFromCall(x ssa.Value) (int64, string, bool) {
	call, ok := x.(*ssa.Call)
	if !ok {
		return 0, "", false
	}
	name := c.P.CalleeName(call)
	switch name {
	case "strings.Split", "strings.SplitAfter":
		if sep, ok := core.ConstString(call.Call.Args[1]); ok && sep != "" {
			return 1, name + " with non-empty constant separator returns at least one element", true
		}
	case "strings.SplitN", "strings.SplitAfterN":
		sep, ok1 := core.ConstString(call.Call.Args[1])
		n, ok2 := constInt(call.Call.Args[2])
		if ok1 && sep != "" && ok2 && n != 0 {
			return 1, name + " with non-empty constant separator and n != 0 returns at least one element", true
		}
	}
	return 0, "", false
}

// ResolveLocal: a load of a local variable that is assigned exactly once (and
// never written by a closure or through its address) is that assigned value.
func ResolveLocal(v ssa.Value) ssa.Value {
	ld, ok := v.(*ssa.UnOp)
	if !ok || ld.Op != token.MUL {
		return v
	}
	a, ok := ld.X.(*ssa.Alloc)
	if !ok {
		return v
	}
	var stored ssa.Value
	n := 0
	for _, r := range *a.Referrers() {
		switch u := r.(type) {
		case *ssa.Store:
			if u.Addr == ssa.Value(a) {
				stored = u.Val
				n++
			}
		case *ssa.UnOp:
		case *ssa.MakeClosure:
			// captured: make sure the closure never assigns it
			if f, ok := u.Fn.(*ssa.Function); ok {
				for i, b := range u.Bindings {
					if b == ssa.Value(a) && i < len(f.FreeVars) {
						if fr := f.FreeVars[i].Referrers(); fr != nil {
							for _, x := range *fr {
								if st, ok := x.(*ssa.Store); ok && st.Addr == ssa.Value(f.FreeVars[i]) {
									return v
								}
								if _, ok := x.(*ssa.UnOp); !ok {
									if _, ok := x.(*ssa.Store); !ok {
										return v
									}
								}
							}
						}
					}
				}
			}
		default:
			return v
		}
	}
	if n == 1 && stored != nil {
		return stored
	}
	return v
}

// lenLower: a constant lower bound for len(x) at `at`.
func (c *Ctx) lenLower(x ssa.Value, at ssa.Instruction) (int64, string) {
	best, why := int64(0), "len >= 0"
	if k, w, ok := c.minLenFromCall(x); ok && k > best {
		best, why = k, w
	}
	if ms, ok := x.(*ssa.MakeSlice); ok {
		if k, ok := constInt(ms.Len); ok && k > best {
			best, why = k, "make with constant length"
		}
	}
	// append(s, e1..ek): at least k elements
	if call, ok := x.(*ssa.Call); ok && isBuiltin(call, "append") && len(call.Call.Args) == 2 {
		if sl, ok := call.Call.Args[1].(*ssa.Slice); ok && sl.Low == nil && sl.High == nil {
			if pt, ok := sl.X.Type().Underlying().(*types.Pointer); ok {
				if at, ok := pt.Elem().Underlying().(*types.Array); ok && at.Len() > best {
					best, why = at.Len(), "append of "+itoa(at.Len())+" element(s)"
				}
			}
		}
	}
	for _, f := range c.FactsAt(at) {
		if f.Op == token.ILLEGAL || f.Op == 0 {
			continue
		}
		a, b, op := f.X, f.Y, f.Op
		if c.isLenOf(b, x, at) {
			a, b, op = b, a, flip(op)
		} else if !c.isLenOf(a, x, at) {
			continue
		}
		_ = a
		k, ok := constInt(b)
		if !ok {
			continue
		}
		var lb int64 = -1
		switch op {
		case token.EQL, token.GEQ:
			lb = k
		case token.GTR:
			lb = k + 1
		}
		if lb > best {
			best, why = lb, "dominating guard on len"
		}
	}
	return best, why
}

// Discharge tries the automatic rules on a mapped site.
func (c *Ctx) Discharge(s *Site) Result {
	if s.IsCall {
		if s.Expanded {
			return Result{true, "inlined-repo-callee", "bounds check belongs to " + s.Callee + ", whose own sites are listed separately"}
		}
		if s.CalleeFn != nil && c.P.IsRepo(s.CalleeFn) {
			return Result{true, "inlined-repo-callee", "bounds check belongs to inlined " + s.Callee + ", whose own sites are listed separately"}
		}
		if s.Callee != "" && !strings.HasPrefix(s.Callee, "dyn") {
			return Result{true, "inlined-stdlib", "bounds check inside inlined library function " + s.Callee + " (trusted)"}
		}
		return Result{false, "", "bounds check at a call whose callee could not be resolved"}
	}
	in := s.Instr
	x, idx, lo, hi, isSlice := operands(in)
	if x == nil {
		return Result{false, "", "unsupported instruction"}
	}
	x = ResolveLocal(x)
	// pointer-to-array bases: bounds are the static array length — the compiler
	// would have proven constant indices; fall through to generic rules.
	if !isSlice {
		return c.dischargeIndex(in, x, idx)
	}
	return c.dischargeSlice(in.(*ssa.Slice), x, lo, hi)
}

func (c *Ctx) dischargeIndex(in ssa.Instruction, x, idx ssa.Value) Result {
	// constant index
	if k, ok := constInt(idx); ok && k >= 0 {
		lb, why := c.lenLower(x, in)
		if k < lb {
			return Result{true, "const-index", "index " + itoa(k) + " < len: " + why}
		}
		return Result{false, "", "constant index " + itoa(k) + " but len is only known to be >= " + itoa(lb)}
	}
	// lower bound
	lb, okLB := c.LowerBound(idx, in)
	// upper bound: idx < len(x) by guard
	if okLB && lb >= 0 && c.LessThanLen(idx, x, in, true) {
		return Result{true, "guarded-index", "0 <= index (lower bound " + itoa(lb) + ") and index < len by a dominating guard"}
	}
	// index a+k (k >= 0) under a guard a < len(x)-k' with k' >= k (or a <= len(x)-k' with k' > k):
	// "not the last element, so the next one exists"
	if bo, ok := stripIntConv(idx).(*ssa.BinOp); ok && bo.Op == token.ADD && okLB && lb >= 0 {
		a, kv := bo.X, bo.Y
		if _, isK := constInt(a); isK {
			a, kv = kv, a
		}
		if k, isK := constInt(kv); isK && k >= 0 {
			sa := stripIntConv(a)
			for _, f := range c.FactsAt(in) {
				if f.Op == token.ILLEGAL || f.Op == 0 {
					continue
				}
				fx, fy, op := f.X, f.Y, f.Op
				if c.Equiv(stripIntConv(fy), sa) {
					fx, fy, op = fy, fx, flip(op)
				} else if !c.Equiv(stripIntConv(fx), sa) {
					continue
				}
				_ = fx
				sub, isSub := stripIntConv(fy).(*ssa.BinOp)
				if !isSub || sub.Op != token.SUB || !c.isLenOf(sub.X, x, in) {
					continue
				}
				k2, isK2 := constInt(sub.Y)
				if !isK2 {
					continue
				}
				if (op == token.LSS && k2 >= k) || (op == token.LEQ && k2 > k) {
					return Result{true, "guarded-index-offset", "index a+" + itoa(k) + " with a < len-" + itoa(k2) + " by a dominating guard"}
				}
			}
		}
	}
	// range index over S with x = make([]T, len(S))
	if ms, ok := x.(*ssa.MakeSlice); ok && okLB && lb >= 0 {
		for _, f := range c.FactsAt(in) {
			if f.Op != token.LSS {
				continue
			}
			if !c.Equiv(stripIntConv(f.X), stripIntConv(idx)) {
				continue
			}
			// f.Y = len(S'), ms.Len = len(S), S equiv S'
			if ly, ok := stripIntConv(f.Y).(*ssa.Call); ok {
				if lm, ok := stripIntConv(ms.Len).(*ssa.Call); ok {
					if isBuiltin(ly, "len") && isBuiltin(lm, "len") && c.Equiv(ly.Call.Args[0], lm.Call.Args[0]) {
						return Result{true, "range-over-make-len", "index ranges over the slice whose length sized this make"}
					}
				}
			}
		}
	}
	// comparator of sort.Slice / SliceStable / slices.SortFunc-style helpers: the library calls
	// less(i, j) only with 0 <= i, j < len(x) of the slice it was given; the index is such a
	// parameter and the indexed slice is that slice (and the comparator does not resize it)
	if p, ok := idx.(*ssa.Parameter); ok && p.Parent() != nil && p.Parent().Parent() != nil {
		cl := p.Parent()
		outer := cl.Parent()
		found := false
		for _, b := range outer.Blocks {
			for _, oi := range b.Instrs {
				call, ok := oi.(*ssa.Call)
				if !ok || call.Call.IsInvoke() {
					continue
				}
				callee := call.Call.StaticCallee()
				if callee == nil || callee.Pkg == nil || callee.Pkg.Pkg.Path() != "sort" || (callee.Name() != "Slice" && callee.Name() != "SliceStable") || len(call.Call.Args) != 2 {
					continue
				}
				mc, ok := call.Call.Args[1].(*ssa.MakeClosure)
				if !ok || mc.Fn != ssa.Value(cl) {
					continue
				}
				sorted := call.Call.Args[0]
				if mi, ok := sorted.(*ssa.MakeInterface); ok {
					sorted = mi.X
				}
				if c.baseDesc(sorted, 0) == c.baseDesc(x, 0) && c.baseDesc(x, 0) != "" {
					found = true
				}
			}
		}
		if found {
			resized := false
			for _, b := range cl.Blocks {
				for _, ci := range b.Instrs {
					if st, ok := ci.(*ssa.Store); ok {
						if c.baseDesc(st.Addr, 0) == c.baseDesc(x, 0) {
							resized = true
						}
					}
				}
			}
			if !resized {
				return Result{true, "sort-comparator-index", "index is a parameter of the comparator passed to sort.Slice over this very slice (library contract: 0 <= i, j < len)"}
			}
		}
	}
	if !okLB || lb < 0 {
		return Result{false, "", "no non-negative lower bound for the index is established"}
	}
	return Result{false, "", "no dominating guard establishes index < len"}
}

func isBuiltin(c *ssa.Call, name string) bool {
	b, ok := c.Call.Value.(*ssa.Builtin)
	return ok && b.Name() == name
}

func (c *Ctx) dischargeSlice(sl *ssa.Slice, x, lo, hi ssa.Value) Result {
	// constant bounds against a known minimum length
	{
		okc := lo != nil || hi != nil
		var mx int64
		for _, b := range []ssa.Value{lo, hi} {
			if b == nil {
				continue
			}
			k, ok := constInt(b)
			if !ok || k < 0 {
				okc = false
				break
			}
			if k > mx {
				mx = k
			}
		}
		if okc {
			if lb, why := c.lenLower(x, sl); mx <= lb {
				return Result{true, "const-slice", "constant bounds <= len: " + why}
			}
		}
	}
	// p[:n] with n from Read(p)
	if lo == nil && hi != nil {
		if ex, ok := hi.(*ssa.Extract); ok && ex.Index == 0 {
			if call, ok := ex.Tuple.(*ssa.Call); ok {
				name := c.P.CalleeName(call)
				if name == "io.ReadFull" || name == "io.ReadAtLeast" {
					// documented: returns the number of bytes copied into buf, 0 <= n <= len(buf)
					if len(call.Call.Args) >= 2 && c.Equiv(call.Call.Args[1], x) {
						return Result{true, "read-postcondition", "n returned by " + name + "(r, buf) satisfies 0 <= n <= len(buf)"}
					}
				}
				if strings.HasSuffix(name, ".Read") {
					args := core.Args(call)
					if len(args) >= 2 && c.Equiv(args[len(args)-1], x) {
						return Result{true, "read-postcondition", "n returned by " + name + "(p) satisfies 0 <= n <= len(p) (io.Reader contract)"}
					}
				}
			}
		}
	}
	// x[:len(x)-len(y)] under HasSuffix(x,y); x[len(y):] under HasPrefix(x,y)
	if lo == nil && hi != nil {
		if b, ok := hi.(*ssa.BinOp); ok && b.Op == token.SUB && c.isLenOf(b.X, x, sl) {
			for _, f := range c.FactsAt(sl) {
				if f.Bool == nil || !f.Truth {
					continue
				}
				if call, ok := f.Bool.(*ssa.Call); ok && c.P.CalleeName(call) == "strings.HasSuffix" &&
					c.Equiv(call.Call.Args[0], x) && c.isLenOf(b.Y, call.Call.Args[1], sl) {
					return Result{true, "hassuffix-guard", "len(x)-len(y) is in range because strings.HasSuffix(x, y) holds"}
				}
			}
		}
	}
	if hi == nil && lo != nil {
		for _, f := range c.FactsAt(sl) {
			if f.Bool == nil || !f.Truth {
				continue
			}
			if call, ok := f.Bool.(*ssa.Call); ok && c.P.CalleeName(call) == "strings.HasPrefix" && c.Equiv(call.Call.Args[0], x) {
				if c.isLenOf(lo, call.Call.Args[1], sl) {
					return Result{true, "hasprefix-guard", "len(prefix) <= len(x) because strings.HasPrefix holds"}
				}
				if k, ok := constInt(lo); ok {
					if pre, ok := core.ConstString(call.Call.Args[1]); ok && k >= 0 && k <= int64(len(pre)) {
						return Result{true, "hasprefix-guard", "constant low bound <= len(prefix) <= len(x) because strings.HasPrefix holds"}
					}
				}
			}
		}
	}
	// x[:i], x[i:], x[i+c:] with i = strings.Index*(x, sep) and i >= 0
	idxBound := func(b ssa.Value, upper bool) (Result, bool) {
		if b == nil {
			return Result{}, false
		}
		base, add := b, int64(0)
		if bo, ok := b.(*ssa.BinOp); ok && bo.Op == token.ADD {
			if k, ok := constInt(bo.Y); ok {
				base, add = bo.X, k
			}
		}
		call, ok := base.(*ssa.Call)
		if !ok {
			return Result{}, false
		}
		name := c.P.CalleeName(call)
		sepLen := int64(-1)
		switch name {
		case "strings.IndexByte", "strings.LastIndexByte", "strings.IndexRune":
			sepLen = 1
		case "strings.Index", "strings.LastIndex":
			if sep, ok := core.ConstString(call.Call.Args[1]); ok {
				sepLen = int64(len(sep))
			}
		}
		if sepLen < 0 || !c.Equiv(call.Call.Args[0], x) {
			return Result{}, false
		}
		if add < 0 || add > sepLen {
			return Result{}, false
		}
		lb, ok := c.LowerBound(base, sl)
		if !ok || lb < 0 {
			return Result{}, false
		}
		return Result{true, "index-postcondition", "bound is " + name + "(x, sep)+" + itoa(add) + " with the result guarded >= 0, hence within len(x)"}, true
	}
	if lo == nil && hi != nil {
		if r, ok := idxBound(hi, true); ok {
			return r
		}
	}
	if hi == nil && lo != nil {
		if r, ok := idxBound(lo, false); ok {
			return r
		}
	}
	return Result{false, "", "no structural rule applies to this slice expression"}
}

func itoa(k int64) string {
	neg := k < 0
	if neg {
		k = -k
	}
	if k == 0 {
		return "0"
	}
	var b []byte
	for k > 0 {
		b = append([]byte{byte('0' + k%10)}, b...)
		k /= 10
	}
	if neg {
		return "-" + string(b)
	}
	return string(b)
}

// BaseDesc gives a rename-proof structural description of the indexed object.
func (c *Ctx) BaseDesc(v ssa.Value) string { return c.baseDesc(v, 0) }

func (c *Ctx) baseDesc(v ssa.Value, d int) string {
	if d > 4 {
		return "…"
	}
	switch x := v.(type) {
	case *ssa.Parameter:
		for i, p := range x.Parent().Params {
			if p == x {
				return "param#" + itoa(int64(i)) + ":" + c.P.TypeShort(x.Type())
			}
		}
		return "param"
	case *ssa.FreeVar:
		return "freevar:" + c.P.TypeShort(x.Type())
	case *ssa.UnOp:
		if x.Op == token.MUL {
			switch a := x.X.(type) {
			case *ssa.FieldAddr:
				return "field:" + c.P.FieldName(a)
			case *ssa.Alloc:
				return "local:" + c.P.TypeShort(deref(a.Type()))
			case *ssa.IndexAddr:
				return "elem(" + c.baseDesc(a.X, d+1) + ")"
			case *ssa.FreeVar:
				return "captured:" + c.P.TypeShort(deref(a.Type()))
			}
			return "load(" + c.baseDesc(x.X, d+1) + ")"
		}
	case *ssa.Field:
		return "field:" + c.P.FieldName(x)
	case *ssa.Call:
		return "call:" + c.P.CalleeName(x)
	case *ssa.Extract:
		if call, ok := x.Tuple.(*ssa.Call); ok {
			return "result#" + itoa(int64(x.Index)) + " of call:" + c.P.CalleeName(call)
		}
		if _, ok := x.Tuple.(*ssa.Next); ok {
			return "range-value"
		}
		return "extract"
	case *ssa.MakeSlice:
		return "make:" + c.P.TypeShort(x.Type())
	case *ssa.Slice:
		return "slice-of(" + c.baseDesc(x.X, d+1) + ")"
	case *ssa.TypeAssert:
		return "assert(" + c.baseDesc(x.X, d+1) + ")"
	case *ssa.Phi:
		set := map[string]bool{}
		for _, e := range x.Edges {
			if e == v {
				continue
			}
			set[c.baseDesc(e, d+1)] = true
		}
		var l []string
		for k := range set {
			l = append(l, k)
		}
		sort.Strings(l)
		return "phi(" + strings.Join(l, ",") + ")"
	case *ssa.Alloc:
		return "alloc:" + c.P.TypeShort(deref(x.Type()))
	case *ssa.Const:
		return "const"
	case *ssa.Convert:
		return c.baseDesc(x.X, d+1)
	case *ssa.ChangeType:
		return c.baseDesc(x.X, d+1)
	}
	return "value:" + c.P.TypeShort(v.Type())
}

func deref(t types.Type) types.Type {
	if pt, ok := t.Underlying().(*types.Pointer); ok {
		return pt.Elem()
	}
	return t
}

// IndexLeaves returns the sorted, structural leaf set of the index operands of
// a site (rename-proof): used to key reviewed discharges.
func (c *Ctx) IndexLeaves(in ssa.Instruction) string {
	_, idx, lo, hi, _ := operands(in)
	var vs []ssa.Value
	for _, v := range []ssa.Value{idx, lo, hi} {
		if v != nil {
			vs = append(vs, v)
		}
	}
	if len(vs) == 0 {
		return ""
	}
	s := c.P.SliceOfMany(vs, core.SliceOpts{Depth: 1})
	var out []string
	for l := range s.Leaves {
		switch {
		case strings.HasPrefix(l, "op:"), strings.HasPrefix(l, "slice-expr"), strings.HasPrefix(l, "via:"), strings.HasPrefix(l, "alloc:"):
			continue
		case strings.HasPrefix(l, "param:"):
			// make parameter leaves rename-proof: use type only
			for _, v := range s.LeafVals[l] {
				out = append(out, "param:"+c.P.TypeShort(v.Type()))
			}
			continue
		}
		out = append(out, l)
	}
	sort.Strings(out)
	// dedupe
	var dd []string
	for i, l := range out {
		if i == 0 || l != out[i-1] {
			dd = append(dd, l)
		}
	}
	return strings.Join(dd, ";")
}
