package oblig

import (
	"go/token"
	"go/types"

	"golang.org/x/tools/go/ssa"

	"gfs3check/internal/core"
)

// NonNilValue reports whether v is provably non-nil by its shape: the address
// of an allocation, a freshly made container, a function/closure, the result
// of a repo/library constructor listed in ctors, a value type boxed into an
// interface, or a parameter/phi whose every source is non-nil.
func (c *Ctx) NonNilValue(v ssa.Value, at ssa.Instruction, depth int) bool {
	if depth > 6 {
		return false
	}
	switch x := v.(type) {
	case *ssa.Alloc, *ssa.MakeSlice, *ssa.MakeMap, *ssa.MakeChan, *ssa.MakeClosure, *ssa.Function, *ssa.FieldAddr, *ssa.IndexAddr, *ssa.Global:
		return true
	case *ssa.MakeInterface:
		switch x.X.Type().Underlying().(type) {
		case *types.Pointer, *types.Map, *types.Slice, *types.Chan, *types.Signature, *types.Interface:
			return c.NonNilValue(x.X, at, depth+1)
		}
		return true // a value type boxed into an interface
	case *ssa.Const:
		return x.Value != nil
	case *ssa.ChangeType:
		return c.NonNilValue(x.X, at, depth+1)
	case *ssa.ChangeInterface:
		return c.NonNilValue(x.X, at, depth+1)
	case *ssa.Phi:
		for _, e := range x.Edges {
			if e == v {
				continue
			}
			if !c.NonNilValue(e, at, depth+1) {
				return false
			}
		}
		return true
	case *ssa.Call:
		name := c.P.CalleeName(x)
		if nonNilCtors[name] {
			return true
		}
		if cal := core.StaticCallee(x); cal != nil && c.P.IsRepo(cal) {
			// every return value non-nil
			rets := core.Returns(cal)
			if len(rets) == 0 {
				return false
			}
			for _, r := range rets {
				if len(r.Results) != 1 || !c.NonNilValue(r.Results[0], r, depth+1) {
					return false
				}
			}
			return true
		}
	case *ssa.Parameter:
		// all static call sites pass non-nil
		sites := c.P.StaticCallers(x.Parent())
		if len(sites) == 0 {
			return false
		}
		idx := -1
		for i, p := range x.Parent().Params {
			if p == x {
				idx = i
			}
		}
		for _, s := range sites {
			args := core.Args(s)
			if idx < 0 || idx >= len(args) || !c.NonNilValue(args[idx], s, depth+1) {
				return false
			}
		}
		return true
	case *ssa.UnOp:
		if x.Op == token.MUL && at != nil {
			// a load that is itself established non-nil
			if c.NonNilLoad(x) {
				return true
			}
		}
	case *ssa.TypeAssert:
		// value of a successful assertion to a pointer type may be a nil pointer
		// unless the container it came from only ever holds non-nil values
		if c.NonNilHook != nil && c.NonNilHook(x) {
			return true
		}
	case *ssa.Extract:
		// v, ok := x.(T) with ok known true: v is the dynamic value of a non-nil interface
		if ta, isTA := x.Tuple.(*ssa.TypeAssert); isTA && ta.CommaOk && x.Index == 0 && at != nil {
			if _, isIface := ta.AssertedType.Underlying().(*types.Interface); isIface {
				for _, f := range c.FactsAt(at) {
					if f.Bool == nil || !f.Truth {
						continue
					}
					if e2, ok := f.Bool.(*ssa.Extract); ok && e2.Tuple == x.Tuple && e2.Index == 1 {
						return true
					}
				}
			}
		}
	}
	// guard facts at the use
	if at != nil {
		for _, f := range c.FactsAt(at) {
			if f.Op == token.NEQ && ((c.Equiv(f.X, v) && core.IsNilConst(f.Y)) || (c.Equiv(f.Y, v) && core.IsNilConst(f.X))) {
				return true
			}
		}
	}
	return false
}

// library / repo constructors whose result is never nil
var nonNilCtors = map[string]bool{
	"github.com/ryszard/goskiplist/skiplist.NewCustomMap":           true,
	"github.com/ryszard/goskiplist/skiplist.NewStringMap":           true,
	"github.com/ryszard/goskiplist/skiplist.NewIntMap":              true,
	"(*github.com/ryszard/goskiplist/skiplist.SkipList).Iterator":   true,
	"(*github.com/ryszard/goskiplist/skiplist.SkipList).SeekToLast": false,
	"crypto/md5.New": true,
}

// fieldAccess describes a load of base.field.
func fieldOfLoad(v ssa.Value) (*ssa.UnOp, *ssa.FieldAddr) {
	ld, ok := v.(*ssa.UnOp)
	if !ok || ld.Op != token.MUL {
		return nil, nil
	}
	fa, ok := ld.X.(*ssa.FieldAddr)
	if !ok {
		return nil, nil
	}
	return ld, fa
}

// NonNilLoad: every path from the function entry to this load of base.field
// passes an establishing event — a branch edge on which a load of the same
// field was compared non-nil, or a store of a provably non-nil value to it —
// after which no instruction may have made it nil again.
func (c *Ctx) NonNilLoad(ld *ssa.UnOp) bool {
	_, fa := fieldOfLoad(ld)
	if fa == nil {
		return false
	}
	return c.nonNilFieldAt(ld, fa.X, fa.Field, c.P.FieldName(fa))
}

// NonNilFieldAt is NonNilLoad for an arbitrary program point.
func (c *Ctx) NonNilFieldAt(at ssa.Instruction, base ssa.Value, fieldIdx int, fname string) bool {
	return c.nonNilFieldAt(at, base, fieldIdx, fname)
}

func (c *Ctx) nonNilFieldAt(at ssa.Instruction, base ssa.Value, fieldIdx int, fname string) bool {
	fn := at.Parent()
	// classify instructions
	sameField := func(a *ssa.FieldAddr) bool {
		return a.Field == fieldIdx && c.P.FieldName(a) == fname && c.Equiv(a.X, base)
	}
	// event: +1 establishing, -1 kill, 0 neutral
	event := func(in ssa.Instruction) int {
		switch x := in.(type) {
		case *ssa.Store:
			if a, ok := x.Addr.(*ssa.FieldAddr); ok && c.P.FieldName(a) == fname {
				if sameField(a) {
					if c.NonNilValue(x.Val, x, 1) {
						return 1
					}
					return -1
				}
				// store to the same field of a possibly different object: if the
				// bases may alias (same type), a nil store kills
				if !c.NonNilValue(x.Val, x, 1) {
					return -1
				}
			}
		case ssa.CallInstruction:
			if cal := core.StaticCallee(x); cal != nil && c.P.IsRepo(cal) {
				if c.funcMayStoreNil(cal, fname, 0) {
					return -1
				}
			} else if x.Common().IsInvoke() || core.StaticCallee(x) == nil {
				if _, isBuiltin := x.Common().Value.(*ssa.Builtin); !isBuiltin && c.dynamicMayReachRepo(x) {
					// resolved repo callees
					cg := c.P.CallGraph()
					if n := cg.Nodes[x.Parent()]; n != nil {
						for _, e := range n.Out {
							if e.Site == x && c.P.IsRepo(e.Callee.Func) && c.funcMayStoreNil(e.Callee.Func, fname, 0) {
								return -1
							}
						}
					}
				}
			}
		}
		return 0
	}
	// guard edge pred→blk establishes non-nil?
	edgeEstablishes := func(pred, blk *ssa.BasicBlock) bool {
		if len(pred.Instrs) == 0 {
			return false
		}
		iff, ok := pred.Instrs[len(pred.Instrs)-1].(*ssa.If)
		if !ok || len(pred.Succs) != 2 || pred.Succs[0] == pred.Succs[1] {
			return false
		}
		branch := pred.Succs[0] == blk
		cd := core.CondOf(iff.Cond)
		if cd.Op != token.EQL && cd.Op != token.NEQ {
			return false
		}
		var lv ssa.Value
		if core.IsNilConst(cd.Y) {
			lv = cd.X
		} else if core.IsNilConst(cd.X) {
			lv = cd.Y
		} else {
			return false
		}
		l2, a2 := fieldOfLoad(lv)
		if a2 == nil || !sameField(a2) {
			return false
		}
		truth := branch
		if cd.Neg {
			truth = !truth
		}
		nonNil := (cd.Op == token.NEQ && truth) || (cd.Op == token.EQL && !truth)
		if !nonNil {
			return false
		}
		// no kill between the compared load and the branch
		if l2.Block() == pred {
			for i := core.InstrIndex(l2) + 1; i < len(pred.Instrs); i++ {
				if event(pred.Instrs[i]) < 0 {
					return false
				}
			}
			return true
		}
		// the load is in a dominating block: require no kill on the way
		return !c.killedBetween(l2, iff, func(in ssa.Instruction) bool { return event(in) < 0 })
	}
	memo := map[*ssa.BasicBlock]int{} // 1 ok, 2 bad, 3 in progress
	var fromEnd func(b *ssa.BasicBlock) bool
	scan := func(b *ssa.BasicBlock, from int) (bool, bool) { // (decided, ok)
		for i := from; i >= 0; i-- {
			switch event(b.Instrs[i]) {
			case 1:
				return true, true
			case -1:
				return true, false
			}
		}
		return false, false
	}
	var preds func(b *ssa.BasicBlock) bool
	preds = func(b *ssa.BasicBlock) bool {
		if b == fn.Blocks[0] || len(b.Preds) == 0 {
			return false
		}
		for _, p := range b.Preds {
			if edgeEstablishes(p, b) {
				continue
			}
			if !fromEnd(p) {
				return false
			}
		}
		return true
	}
	fromEnd = func(b *ssa.BasicBlock) bool {
		switch memo[b] {
		case 1, 3:
			return true
		case 2:
			return false
		}
		memo[b] = 3
		dec, ok := scan(b, len(b.Instrs)-1)
		if !dec {
			ok = preds(b)
		}
		if ok {
			memo[b] = 1
		} else {
			memo[b] = 2
		}
		return ok
	}
	blk := at.Block()
	dec, ok := scan(blk, core.InstrIndex(at)-1)
	if dec {
		return ok
	}
	return preds(blk)
}

// funcMayStoreNil: fn (transitively, static callees) may store a possibly-nil
// value into the named field of an object that is not freshly allocated there.
func (c *Ctx) funcMayStoreNil(fn *ssa.Function, fname string, depth int) bool {
	k := "nil:" + fname
	if m, ok := c.mayStore[fn]; ok {
		if v, ok := m[k]; ok {
			return v
		}
	} else {
		c.mayStore[fn] = map[string]bool{}
	}
	c.mayStore[fn][k] = false
	res := false
	for _, f := range core.Closures(fn) {
		core.Instrs(f, func(in ssa.Instruction) {
			if res {
				return
			}
			switch x := in.(type) {
			case *ssa.Store:
				if fa, ok := x.Addr.(*ssa.FieldAddr); ok && c.P.FieldName(fa) == fname {
					if _, fresh := fa.X.(*ssa.Alloc); fresh {
						return
					}
					if !c.NonNilValue(x.Val, x, 1) {
						res = true
					}
				}
			case ssa.CallInstruction:
				if cal := core.StaticCallee(x); cal != nil && c.P.IsRepo(cal) && depth < 6 {
					if c.funcMayStoreNil(cal, fname, depth+1) {
						res = true
					}
				}
			}
		})
	}
	c.mayStore[fn][k] = res
	return res
}
