// Package lockset is engine E3: an Eraser-style lockset analysis computed
// statically. Lock objects are abstracted by (struct type, field). For every
// instruction of every repo function it computes the set of lock classes that
// are held on all paths (must, for data-race rules) and on some path (may, for
// lock-order rules), interprocedurally: the entry lockset of a function is the
// intersection (resp. union) over its call sites, closures that are invoked
// synchronously inherit the lockset where they are created.
package lockset

import (
	"fmt"
	"go/ast"
	"go/types"
	"sort"
	"strings"

	"golang.org/x/tools/go/callgraph"
	"golang.org/x/tools/go/ssa"

	"gfs3check/internal/core"
)

// Mode of a held lock.
type Mode int

const (
	None Mode = 0
	R    Mode = 1
	W    Mode = 2
)

func (m Mode) String() string { return [...]string{"-", "R", "W"}[m] }

// LS maps lock class → mode. A nil LS with top=true is the universal set.
type LS struct {
	m   map[string]Mode
	top bool
}

func topLS() LS   { return LS{top: true} }
func emptyLS() LS { return LS{m: map[string]Mode{}} }

func (a LS) clone() LS {
	if a.top {
		return a
	}
	n := LS{m: make(map[string]Mode, len(a.m))}
	for k, v := range a.m {
		n.m[k] = v
	}
	return n
}

// Get returns the mode in which class is held.
func (a LS) Get(class string) Mode {
	if a.top {
		return W
	}
	return a.m[class]
}

// Classes lists the held classes.
func (a LS) Classes() []string {
	var out []string
	for k, v := range a.m {
		if v != None {
			out = append(out, k+":"+v.String())
		}
	}
	sort.Strings(out)
	return out
}

func (a LS) String() string {
	if a.top {
		return "{*}"
	}
	return "{" + strings.Join(a.Classes(), ",") + "}"
}

func (a LS) equal(b LS) bool {
	if a.top != b.top {
		return false
	}
	if a.top {
		return true
	}
	for k, v := range a.m {
		if v != None && b.m[k] != v {
			return false
		}
	}
	for k, v := range b.m {
		if v != None && a.m[k] != v {
			return false
		}
	}
	return true
}

func meet(a, b LS) LS { // intersection, weaker mode
	if a.top {
		return b.clone()
	}
	if b.top {
		return a.clone()
	}
	n := emptyLS()
	for k, v := range a.m {
		w := b.m[k]
		if v != None && w != None {
			if w < v {
				v = w
			}
			n.m[k] = v
		}
	}
	return n
}

func join(a, b LS) LS { // union, stronger mode
	if a.top || b.top {
		return topLS()
	}
	n := a.clone()
	for k, v := range b.m {
		if v > n.m[k] {
			n.m[k] = v
		}
	}
	return n
}

// Alias merges lock fields into one abstract lock class (set by the rules
// before New is called). Used for the two afero backends, which share the
// metaStore helper: each backend instance owns one lock and one metaStore, so
// for state owned by metaStore "the lock of the backend that owns it" is one
// class although it lives in two struct types.
var Alias = map[string]string{}

// LockOp is a recognised mutex operation.
type LockOp struct {
	Instr    ssa.CallInstruction
	Class    string // "s3mem.Backend.lock"
	Acquire  bool
	Mode     Mode // W for Lock/Unlock, R for RLock/RUnlock
	Deferred bool
}

// Analysis holds the results.
type Analysis struct {
	P     *core.Program
	Funcs []*ssa.Function

	ops map[ssa.Instruction]*LockOp
	// releases performed by calling (or deferring) a function value: `unlock := mu.Unlock`,
	// `unlock := func() { a.Unlock(); b.Unlock() }`, ... `defer unlock()`
	extra map[ssa.Instruction][]*LockOp

	mustEntry map[*ssa.Function]LS
	mayEntry  map[*ssa.Function]LS
	mustIn    map[*ssa.BasicBlock]LS
	mayIn     map[*ssa.BasicBlock]LS

	// call sites (in repo functions) per callee, wrappers made transparent
	sites map[*ssa.Function][]ssa.CallInstruction
	// closures invoked synchronously: closure → creating MakeClosure
	syncClosure map[*ssa.Function]*ssa.MakeClosure
	// where a synchronous closure is activated: the calls that invoke it or receive it
	syncActs   map[*ssa.Function][]ssa.Instruction
	goClosure  map[*ssa.Function]bool
	entryPoint map[*ssa.Function]bool
	callees    map[ssa.CallInstruction][]*ssa.Function

	Rounds     int
	Unresolved []string
	Classes    map[string]bool
}

var lockMethods = map[string]struct {
	acquire bool
	mode    Mode
}{
	"(*sync.Mutex).Lock":      {true, W},
	"(*sync.Mutex).Unlock":    {false, W},
	"(*sync.RWMutex).Lock":    {true, W},
	"(*sync.RWMutex).Unlock":  {false, W},
	"(*sync.RWMutex).RLock":   {true, R},
	"(*sync.RWMutex).RUnlock": {false, R},
	"(*sync.Mutex).TryLock":   {true, W},
	"(*sync.RWMutex).TryLock": {true, W},
}

// New runs the analysis over all repo functions.
func New(p *core.Program) *Analysis {
	a := &Analysis{P: p, ops: map[ssa.Instruction]*LockOp{}, extra: map[ssa.Instruction][]*LockOp{},
		mustEntry: map[*ssa.Function]LS{}, mayEntry: map[*ssa.Function]LS{},
		mustIn: map[*ssa.BasicBlock]LS{}, mayIn: map[*ssa.BasicBlock]LS{},
		sites: map[*ssa.Function][]ssa.CallInstruction{}, syncClosure: map[*ssa.Function]*ssa.MakeClosure{}, syncActs: map[*ssa.Function][]ssa.Instruction{},
		goClosure: map[*ssa.Function]bool{}, entryPoint: map[*ssa.Function]bool{},
		callees: map[ssa.CallInstruction][]*ssa.Function{}, Classes: map[string]bool{}}
	a.Funcs = p.RepoFuncs()
	a.findOps()
	a.findFuncValueOps()
	a.buildCalls()
	a.fixpoint()
	return a
}

func (a *Analysis) findOps() {
	for _, fn := range a.Funcs {
		core.Instrs(fn, func(in ssa.Instruction) {
			c, ok := in.(ssa.CallInstruction)
			if !ok {
				return
			}
			name := a.P.CalleeName(c)
			lm, ok := lockMethods[name]
			if !ok {
				return
			}
			_, deferred := in.(*ssa.Defer)
			class := a.lockClass(c.Common().Args[0])
			if class == "" {
				a.Unresolved = append(a.Unresolved, fmt.Sprintf("%s: mutex operation on an unrecognised lock object in %s", a.P.InstrPos(in), a.P.FuncName(fn)))
				return
			}
			a.Classes[class] = true
			a.ops[in] = &LockOp{Instr: c, Class: class, Acquire: lm.acquire, Mode: lm.mode, Deferred: deferred}
		})
	}
}

// findFuncValueOps recognises calls of function values that are known to
// release locks: a bound method value of a mutex's Unlock/RUnlock, or a
// function literal whose straight-line body releases locks. The value is
// followed through phis along feasible edges only.
func (a *Analysis) findFuncValueOps() {
	for _, fn := range a.Funcs {
		core.Instrs(fn, func(in ssa.Instruction) {
			c, ok := in.(ssa.CallInstruction)
			if !ok || c.Common().IsInvoke() {
				return
			}
			switch c.Common().Value.(type) {
			case *ssa.Function, *ssa.Builtin:
				return
			}
			if _, direct := c.Common().Value.(*ssa.MakeClosure); direct {
				// `defer func() {...}()`: the literal is analysed as a synchronous closure
				if f, ok := c.Common().Value.(*ssa.MakeClosure).Fn.(*ssa.Function); ok && f.Synthetic == "" {
					if _, isDefer := in.(*ssa.Defer); !isDefer {
						return
					}
				}
			}
			mc := resolveFuncValue(c.Common().Value, 0)
			if mc == nil {
				return
			}
			_, deferred := in.(*ssa.Defer)
			f, ok := mc.Fn.(*ssa.Function)
			if !ok {
				return
			}
			if f.Synthetic != "" {
				// bound method wrapper: mu.Unlock as a value
				obj, _ := f.Object().(*types.Func)
				if obj == nil || len(mc.Bindings) != 1 {
					return
				}
				lm, ok := lockMethods[obj.FullName()]
				if !ok {
					return
				}
				class := a.lockClass(mc.Bindings[0])
				if class == "" {
					a.Unresolved = append(a.Unresolved, fmt.Sprintf("%s: mutex method value on an unrecognised lock object in %s", a.P.InstrPos(in), a.P.FuncName(fn)))
					return
				}
				if lm.acquire {
					a.Unresolved = append(a.Unresolved, fmt.Sprintf("%s: a lock is acquired through a method value in %s", a.P.InstrPos(in), a.P.FuncName(fn)))
					return
				}
				a.Classes[class] = true
				a.extra[in] = append(a.extra[in], &LockOp{Instr: c, Class: class, Acquire: false, Mode: lm.mode, Deferred: deferred})
				return
			}
			// function literal: its lock operations, if they run on every path through it
			var ops []*LockOp
			okAll := true
			rets := core.Returns(f)
			core.Instrs(f, func(x ssa.Instruction) {
				op := a.ops[x]
				if op == nil {
					return
				}
				if op.Acquire || op.Deferred {
					okAll = false
					return
				}
				for _, r := range rets {
					if !core.Dominates(x, r) {
						okAll = false
					}
				}
				ops = append(ops, &LockOp{Instr: c, Class: op.Class, Acquire: false, Mode: op.Mode, Deferred: deferred})
			})
			if !okAll || len(ops) == 0 {
				return
			}
			sort.SliceStable(ops, func(i, j int) bool { return false })
			a.extra[in] = append(a.extra[in], ops...)
		})
	}
}

// resolveFuncValue follows a function-typed value to the one closure it can
// be on feasible paths, or nil.
func resolveFuncValue(v ssa.Value, depth int) *ssa.MakeClosure {
	if depth > 4 {
		return nil
	}
	switch x := v.(type) {
	case *ssa.MakeClosure:
		return x
	case *ssa.ChangeType:
		return resolveFuncValue(x.X, depth+1)
	case *ssa.Phi:
		var got *ssa.MakeClosure
		for i, e := range x.Edges {
			if !core.LiveEdge(x.Block().Preds[i], x.Block()) {
				continue
			}
			m := resolveFuncValue(e, depth+1)
			if m == nil || got != nil && got != m {
				return nil
			}
			got = m
		}
		return got
	case *ssa.UnOp:
		if lv := core.BlockLocalLoad(x); lv != ssa.Value(x) {
			return resolveFuncValue(lv, depth+1)
		}
	}
	return nil
}

// lockClass abstracts a mutex pointer by the struct field it addresses.
func (a *Analysis) lockClass(v ssa.Value) string {
	switch x := v.(type) {
	case *ssa.FieldAddr:
		n := a.P.FieldName(x)
		if al, ok := Alias[n]; ok {
			return al
		}
		return n
	case *ssa.Global:
		return "global." + x.Name()
	}
	return ""
}

// Op returns the lock operation performed by an instruction, if any.
func (a *Analysis) Op(in ssa.Instruction) *LockOp {
	if o := a.ops[in]; o != nil {
		return o
	}
	if ex := a.extra[in]; len(ex) > 0 {
		return ex[0]
	}
	return nil
}

// OpsAt returns every lock operation an instruction performs (a call of an
// unlock function value may release several locks).
func (a *Analysis) OpsAt(in ssa.Instruction) []*LockOp {
	var out []*LockOp
	if o := a.ops[in]; o != nil {
		out = append(out, o)
	}
	return append(out, a.extra[in]...)
}

// Ops lists all lock operations sorted by position.
func (a *Analysis) Ops() []*LockOp {
	var out []*LockOp
	for _, o := range a.ops {
		out = append(out, o)
	}
	for _, l := range a.extra {
		out = append(out, l...)
	}
	sort.SliceStable(out, func(i, j int) bool { return out[i].Instr.Pos() < out[j].Instr.Pos() })
	return out
}

// isExportedFunc: callable from outside the module without going through an
// interface — an exported function, or an exported method of an exported type.
// Exported methods of unexported types are reached only through interfaces or
// repo code; the call graph supplies their call sites.
func isExportedFunc(fn *ssa.Function) bool {
	if fn.Parent() != nil {
		return false
	}
	if !ast.IsExported(fn.Name()) {
		return false
	}
	if recv := fn.Signature.Recv(); recv != nil {
		t := recv.Type()
		if pt, ok := t.(*types.Pointer); ok {
			t = pt.Elem()
		}
		if n, ok := t.(*types.Named); ok && !n.Obj().Exported() {
			return false
		}
	}
	return true
}

func (a *Analysis) buildCalls() {
	p := a.P
	cg := p.CallGraph()
	inRepo := map[*ssa.Function]bool{}
	for _, f := range a.Funcs {
		inRepo[f] = true
	}
	// resolve callees of every call site in repo functions; wrappers transparent
	var resolve func(f *ssa.Function, depth int, out map[*ssa.Function]bool)
	resolve = func(f *ssa.Function, depth int, out map[*ssa.Function]bool) {
		if f == nil || depth > 4 {
			return
		}
		if inRepo[f] {
			out[f] = true
			return
		}
		if f.Synthetic != "" && p.PkgShort(f) != "" || (f.Synthetic != "" && f.Object() != nil && isRepoObj(p, f.Object())) {
			// wrapper / bound / thunk of a repo method: follow its out edges
			if n := cg.Nodes[f]; n != nil {
				for _, e := range n.Out {
					resolve(e.Callee.Func, depth+1, out)
				}
			}
		}
	}
	for _, fn := range a.Funcs {
		n := cg.Nodes[fn]
		if n == nil {
			continue
		}
		for _, e := range n.Out {
			if e.Site == nil {
				continue
			}
			out := map[*ssa.Function]bool{}
			resolve(e.Callee.Func, 0, out)
			for g := range out {
				a.callees[e.Site] = appendUnique(a.callees[e.Site], g)
				a.sites[g] = append(a.sites[g], e.Site)
			}
		}
	}
	// closures
	for _, fn := range a.Funcs {
		core.Instrs(fn, func(in ssa.Instruction) {
			mc, ok := in.(*ssa.MakeClosure)
			if !ok {
				return
			}
			cl, ok := mc.Fn.(*ssa.Function)
			if !ok {
				return
			}
			sync, isGo := true, false
			var acts []ssa.Instruction
			var uses func(v ssa.Value)
			uses = func(v ssa.Value) {
				refs := v.Referrers()
				if refs == nil || len(*refs) == 0 {
					sync = false
					return
				}
				for _, r := range *refs {
					switch r := r.(type) {
					case *ssa.Go:
						isGo = true
					case ssa.CallInstruction:
						// invoked directly, or handed to a callee that invokes it: either way
						// it runs while this call is in progress
						acts = append(acts, r)
					case *ssa.ChangeType:
						// conversion to a named func type (filepath.WalkFunc, ...)
						uses(r)
					default:
						sync = false
					}
				}
			}
			uses(mc)
			if isGo {
				a.goClosure[cl] = true
			} else if sync {
				a.syncClosure[cl] = mc
				a.syncActs[cl] = acts
			}
		})
	}
	for _, fn := range a.Funcs {
		if _, ok := a.syncClosure[fn]; ok {
			continue
		}
		if fn.Parent() != nil {
			// escaping closure (returned, stored, converted): callable from anywhere
			a.entryPoint[fn] = true
			continue
		}
		if isExportedFunc(fn) || len(a.sites[fn]) == 0 || fn.Name() == "init" || fn.Name() == "main" {
			a.entryPoint[fn] = true
		}
	}
}

func isRepoObj(p *core.Program, o types.Object) bool {
	return o.Pkg() != nil && strings.HasPrefix(o.Pkg().Path(), core.ModPath)
}

func appendUnique(l []*ssa.Function, f *ssa.Function) []*ssa.Function {
	for _, x := range l {
		if x == f {
			return l
		}
	}
	return append(l, f)
}

// Callees returns the repo functions a call site may invoke.
func (a *Analysis) Callees(c ssa.CallInstruction) []*ssa.Function { return a.callees[c] }

// IsEntry reports whether fn is analysed with an empty entry lockset.
func (a *Analysis) IsEntry(fn *ssa.Function) bool { return a.entryPoint[fn] }

// transfer applies one instruction to a lockset (must or may alike).
func (a *Analysis) transfer(ls LS, in ssa.Instruction) LS {
	if ex := a.extra[in]; len(ex) > 0 && !ls.top {
		n := ls.clone()
		for _, op := range ex {
			if !op.Deferred {
				delete(n.m, op.Class)
			}
		}
		return n
	}
	op := a.ops[in]
	if op == nil || op.Deferred || ls.top {
		return ls
	}
	n := ls.clone()
	if op.Acquire {
		if op.Mode > n.m[op.Class] {
			n.m[op.Class] = op.Mode
		}
	} else {
		delete(n.m, op.Class)
	}
	return n
}

// intra recomputes block-entry locksets of fn from its entry lockset. States
// are kept per incoming edge and propagated along feasible successors only
// (core.FeasibleSuccs: a branch decided by the way the block was entered is
// followed on that side only), so `x, unlock, err := lockAndFind(); if err !=
// nil { return }` expanded in place does not merge its released error arm into
// the continuing path.
type edgeKey struct{ from, to *ssa.BasicBlock }

func (a *Analysis) intra(fn *ssa.Function, entry LS, in map[*ssa.BasicBlock]LS, isMust bool) {
	if len(fn.Blocks) == 0 {
		return
	}
	for _, b := range fn.Blocks {
		delete(in, b)
	}
	edgeIn := map[edgeKey]LS{}
	start := edgeKey{nil, fn.Blocks[0]}
	edgeIn[start] = entry
	work := []edgeKey{start}
	for iter := 0; len(work) > 0 && iter < 200000; iter++ {
		e := work[0]
		work = work[1:]
		o := edgeIn[e]
		for _, instr := range e.to.Instrs {
			o = a.transfer(o, instr)
		}
		for _, s := range core.FeasibleSuccs(e.to, e.from) {
			k := edgeKey{e.to, s}
			old, ok := edgeIn[k]
			var nw LS
			switch {
			case !ok:
				nw = o.clone()
			case isMust:
				nw = meet(old, o)
			default:
				nw = join(old, o)
			}
			if !ok || !old.equal(nw) {
				edgeIn[k] = nw
				work = append(work, k)
			}
		}
	}
	for k, ls := range edgeIn {
		cur, ok := in[k.to]
		switch {
		case !ok:
			in[k.to] = ls.clone()
		case isMust:
			in[k.to] = meet(cur, ls)
		default:
			in[k.to] = join(cur, ls)
		}
	}
}

func (a *Analysis) at(in map[*ssa.BasicBlock]LS, instr ssa.Instruction) LS {
	b := instr.Block()
	ls, ok := in[b]
	if !ok {
		return topLS() // unreachable code
	}
	for _, x := range b.Instrs {
		if x == instr {
			return ls
		}
		ls = a.transfer(ls, x)
	}
	return ls
}

// MustAt is the set of locks held on every path when instr executes.
func (a *Analysis) MustAt(instr ssa.Instruction) LS { return a.at(a.mustIn, instr) }

// MayAt is the set of locks held on some path when instr executes.
func (a *Analysis) MayAt(instr ssa.Instruction) LS { return a.at(a.mayIn, instr) }

// MustEntry returns the entry lockset of fn.
func (a *Analysis) MustEntry(fn *ssa.Function) LS { return a.mustEntry[fn] }

func (a *Analysis) fixpoint() {
	for _, fn := range a.Funcs {
		if a.entryPoint[fn] {
			a.mustEntry[fn] = emptyLS()
		} else {
			a.mustEntry[fn] = topLS()
		}
		a.mayEntry[fn] = emptyLS()
	}
	for round := 1; round <= 50; round++ {
		a.Rounds = round
		for _, fn := range a.Funcs {
			a.intra(fn, a.mustEntry[fn], a.mustIn, true)
			a.intra(fn, a.mayEntry[fn], a.mayIn, false)
		}
		changed := false
		newMust := map[*ssa.Function]LS{}
		newMay := map[*ssa.Function]LS{}
		for _, fn := range a.Funcs {
			if a.entryPoint[fn] {
				newMust[fn] = emptyLS()
			} else {
				newMust[fn] = topLS()
			}
			newMay[fn] = emptyLS()
		}
		for _, fn := range a.Funcs {
			if mc, ok := a.syncClosure[fn]; ok {
				if acts := a.syncActs[fn]; len(acts) > 0 {
					// the locks held where it is activated (it may be created earlier, e.g. as
					// the argument of a locking helper whose body was expanded in place)
					first := true
					for _, at := range a.activationPoints(mc, acts) {
						if first {
							newMust[fn] = a.MustAt(at)
							newMay[fn] = a.MayAt(at)
							first = false
						} else {
							newMust[fn] = meet(newMust[fn], a.MustAt(at))
							newMay[fn] = join(newMay[fn], a.MayAt(at))
						}
					}
					continue
				}
				newMust[fn] = a.MustAt(mc)
				newMay[fn] = a.MayAt(mc)
				continue
			}
			if a.goClosure[fn] {
				newMust[fn] = emptyLS()
				continue
			}
			for _, site := range a.sites[fn] {
				newMust[fn] = meet(newMust[fn], a.MustAt(site))
				newMay[fn] = join(newMay[fn], a.MayAt(site))
			}
		}
		for _, fn := range a.Funcs {
			if !newMust[fn].equal(a.mustEntry[fn]) || !newMay[fn].equal(a.mayEntry[fn]) {
				changed = true
			}
			a.mustEntry[fn] = newMust[fn]
			a.mayEntry[fn] = newMay[fn]
		}
		if !changed {
			break
		}
	}
	// final intra pass with the converged entries
	for _, fn := range a.Funcs {
		a.intra(fn, a.mustEntry[fn], a.mustIn, true)
		a.intra(fn, a.mayEntry[fn], a.mayIn, false)
	}
}

// activationPoints refines the places where a synchronous closure runs: where
// it is handed, as an argument, to a repository function that calls that
// parameter directly (`db.withLock(func() { … })`), it runs at those inner
// calls — with whatever the helper has locked by then — not at the hand-over.
func (a *Analysis) activationPoints(mc *ssa.MakeClosure, acts []ssa.Instruction) []ssa.Instruction {
	var out []ssa.Instruction
	for _, at := range acts {
		ci, ok := at.(ssa.CallInstruction)
		if !ok {
			out = append(out, at)
			continue
		}
		callee := ci.Common().StaticCallee()
		idx := -1
		for i, arg := range ci.Common().Args {
			v := arg
			for k := 0; k < 2; k++ {
				if ct, isCT := v.(*ssa.ChangeType); isCT {
					v = ct.X
				}
			}
			if v == ssa.Value(mc) {
				idx = i
			}
		}
		var inner []ssa.Instruction
		if callee != nil && idx >= 0 && idx < len(callee.Params) && len(callee.Blocks) > 0 {
			isRepoFn := false
			for _, f := range a.Funcs {
				if f == callee {
					isRepoFn = true
				}
			}
			if isRepoFn {
				param := callee.Params[idx]
				escapes := false
				if refs := param.Referrers(); refs != nil {
					for _, r := range *refs {
						switch x := r.(type) {
						case ssa.CallInstruction:
							if x.Common().Value == ssa.Value(param) {
								if _, isGo := x.(*ssa.Go); isGo {
									escapes = true
								} else {
									inner = append(inner, x)
								}
							} else {
								escapes = true // handed on
							}
						case *ssa.DebugRef:
						default:
							escapes = true
						}
					}
				}
				if escapes {
					inner = nil
				}
			}
		}
		if len(inner) > 0 {
			out = append(out, inner...)
		} else {
			out = append(out, at)
		}
	}
	return out
}

// Witness returns a call path from an entry point to fn on which none of the
// classes is held when fn is entered ("" if fn's entry lockset holds one).
func (a *Analysis) Witness(fn *ssa.Function, classes []string, need Mode) string {
	seen := map[*ssa.Function]bool{}
	var path []string
	var walk func(f *ssa.Function) bool
	holds := func(ls LS) bool {
		for _, c := range classes {
			if ls.Get(c) >= need {
				return true
			}
		}
		return false
	}
	walk = func(f *ssa.Function) bool {
		if seen[f] {
			return false
		}
		seen[f] = true
		if a.entryPoint[f] {
			path = append(path, a.P.FuncName(f)+" (entry)")
			return true
		}
		if mc, ok := a.syncClosure[f]; ok {
			held := holds(a.MustAt(mc))
			if acts := a.syncActs[f]; len(acts) > 0 {
				held = true
				for _, at := range acts {
					if !holds(a.MustAt(at)) {
						held = false
					}
				}
			}
			if !held && walk(mc.Parent()) {
				path = append(path, a.P.FuncName(f)+" (closure created at "+a.P.InstrPos(mc)+")")
				return true
			}
			return false
		}
		for _, site := range a.sites[f] {
			if holds(a.MustAt(site)) {
				continue
			}
			if walk(site.Parent()) {
				path = append(path, a.P.FuncName(f)+" (called at "+a.P.InstrPos(site)+")")
				return true
			}
		}
		return false
	}
	if walk(fn) {
		return strings.Join(path, " → ")
	}
	return ""
}

// OrderEdge is "To acquired while From may be held".
type OrderEdge struct {
	From, To string
	FromMode Mode
	ToMode   Mode
	Site     ssa.Instruction
}

// OrderEdges returns the lock-order graph edges (deduplicated by From/To).
func (a *Analysis) OrderEdges() []OrderEdge {
	var out []OrderEdge
	seen := map[string]bool{}
	for _, op := range a.Ops() {
		if !op.Acquire || op.Deferred {
			continue
		}
		held := a.MayAt(op.Instr)
		if held.top {
			continue
		}
		for c, m := range held.m {
			if m == None {
				continue
			}
			k := c + "→" + op.Class
			if seen[k] {
				continue
			}
			seen[k] = true
			out = append(out, OrderEdge{From: c, To: op.Class, FromMode: m, ToMode: op.Mode, Site: op.Instr})
		}
	}
	sort.Slice(out, func(i, j int) bool {
		if out[i].From != out[j].From {
			return out[i].From < out[j].From
		}
		return out[i].To < out[j].To
	})
	return out
}

// CallGraphNodes is reported in evidence.
func (a *Analysis) CallGraphNodes() int {
	return len(a.P.CallGraph().Nodes)
}

var _ = callgraph.GraphVisitEdges

// Unpaired reports a lock acquired in fn that may still be held at a return
// without a matching deferred unlock.
type Unpaired struct {
	Class  string
	Mode   Mode
	Return ssa.Instruction
}

// Pairing checks fn in isolation: every lock it acquires is released on every
// path to every return, either explicitly or by a deferred unlock that was
// registered on every path to that return.
func (a *Analysis) Pairing(fn *ssa.Function) (acquired int, bad []Unpaired) {
	if len(fn.Blocks) == 0 {
		return 0, nil
	}
	type st struct {
		held LS              // may
		def  map[string]Mode // must-registered deferred unlocks
		ok   bool
	}
	cloneDef := func(d map[string]Mode) map[string]Mode {
		n := map[string]Mode{}
		for k, v := range d {
			n[k] = v
		}
		return n
	}
	eq := func(x, y st) bool {
		if !x.held.equal(y.held) || len(x.def) != len(y.def) {
			return false
		}
		for k, v := range x.def {
			if y.def[k] != v {
				return false
			}
		}
		return true
	}
	applyOp := func(n st, op *LockOp) {
		switch {
		case op.Deferred && !op.Acquire:
			n.def[op.Class] = op.Mode
		case op.Acquire && !op.Deferred:
			n.held.m[op.Class] = op.Mode
		case !op.Acquire && !op.Deferred:
			delete(n.held.m, op.Class)
		}
	}
	apply := func(s st, instr ssa.Instruction) st {
		op := a.ops[instr]
		ex := a.extra[instr]
		if op == nil && len(ex) == 0 {
			return s
		}
		n := st{held: s.held.clone(), def: cloneDef(s.def), ok: true}
		if op != nil {
			applyOp(n, op)
		}
		for _, o := range ex {
			applyOp(n, o)
		}
		return n
	}
	merge := func(x, o st) st {
		n := st{held: join(x.held, o.held), def: cloneDef(x.def), ok: true}
		for k, v := range n.def {
			if o.def[k] != v {
				delete(n.def, k)
			}
		}
		return n
	}
	// per incoming edge, along feasible successors only (see intra)
	edgeIn := map[edgeKey]st{}
	start := edgeKey{nil, fn.Blocks[0]}
	edgeIn[start] = st{held: emptyLS(), def: map[string]Mode{}, ok: true}
	work := []edgeKey{start}
	for iter := 0; len(work) > 0 && iter < 200000; iter++ {
		e := work[0]
		work = work[1:]
		o := edgeIn[e]
		for _, instr := range e.to.Instrs {
			o = apply(o, instr)
		}
		for _, sc := range core.FeasibleSuccs(e.to, e.from) {
			k := edgeKey{e.to, sc}
			old, ok := edgeIn[k]
			nw := o
			if ok {
				nw = merge(old, o)
			}
			if !ok || !eq(old, nw) {
				edgeIn[k] = nw
				work = append(work, k)
			}
		}
	}
	in := map[*ssa.BasicBlock]st{}
	for k, v := range edgeIn {
		if cur, ok := in[k.to]; ok {
			in[k.to] = merge(cur, v)
		} else {
			in[k.to] = v
		}
	}
	for _, op := range a.ops {
		if op.Instr.Parent() == fn && op.Acquire && !op.Deferred {
			acquired++
		}
	}
	for _, ret := range core.Returns(fn) {
		s, ok := in[ret.Block()]
		if !ok {
			continue
		}
		for _, instr := range ret.Block().Instrs {
			if instr == ssa.Instruction(ret) {
				break
			}
			s = apply(s, instr)
		}
		for c, m := range s.held.m {
			if m == None {
				continue
			}
			if s.def[c] == m {
				continue
			}
			bad = append(bad, Unpaired{Class: c, Mode: m, Return: ret})
		}
	}
	return acquired, bad
}
